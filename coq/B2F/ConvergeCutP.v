(* B2F/ConvergeCutP.v -- THE CUT SESSION OF TWO LIBRARY SIDES: what each side records comes from the
   other side.  Discharges the hypothesis ConvergeP.genuine_session, so that "delivered" in the
   convergence theorem (B2F/ConvergeP.v) is unconditional.  No axioms; everything called a lemma or
   theorem below is proved (Print Assumptions at the end: closed under the global context).

   MAIN RESULTS (x, y: any two side configurations with opposite roles, compatible handshakes
   (PairDefs.hs_compat) and outboxes that respect the wire formats (PairDefs.prop_syn); in_x, in_y with
   ConvergeP.cut_session x y in_x in_y: each side has received an INITIAL PART of what the other
   wrote -- any cut in either direction, any way the two runs end, h_fail unrestricted)
   1. cut_events: every event e in the log of x satisfies Pk (outbox of y, policy of y) e:
        e = EvProcess mid d ok  ->  some entry q of y's outbox has proposal_message (o_cdata q) = MOk mid d;
        e = EvSetSent m true    ->  policy_of y m = AReject.
   2. stored_is_own (G1): with prop_wf and NoDup for x's outbox, EvProcess (o_mid p) d ok in the log
      of y for an entry p of x's outbox implies d = pm_data p.
      rejected_by_policy (G2): EvSetSent m true in the log of x implies policy_of y m = AReject.
      genuine_cut_session: ConvergeP.genuine_session holds for every entry of x's outbox.
   3. convergence_delivered (generic) / convergence_delivered_cut (the shape of two_party_safety):
      under the hypotheses of ConvergeP.convergence_sym / convergence, in BOTH directions, for every
      entry p whose MID the peer's original policy accepts,
        In (EvProcess (o_mid p) (pm_data p) true) (log of the peer in the cut session ++ its log in
        the complete second session).

   METHOD.  `step P s s'`: the handler of s' has the outbox and policy of s, and every event of s' is
   an event of s or satisfies P; one lemma per phase of a turn for ANY result (outbound_step,
   send_accepted_step, mark_rej_step, ho_peek_step, inbound_loop_step, ...).  receive_any:
   PairXfer.receive_genuine for any outcome of receive_accepted (what is handed over are messages of
   the block, also when the receiver stops in the middle).  recv_block_pol: PairP.recv_block with
   the origin of the answers (a "reject" is the policy's).  joint_turn: one turn of the pair under
   the invariant of PairP (each side's unread input is an initial part of what the other will still
   write), for ANY outcome: each side either reaches the next boundary (invariant again) or has
   stopped; a side whose peer has stopped can only read (part of) the error report and records
   nothing more (quiet_send, quiet_recv).  joint_cut: induction over the boundaries.  cut_events:
   the handshake, after the proof of PairP.two_party_safety_intact. *)
From Coq Require Import List NArith ZArith Bool Lia ZifyN ZifyNat ZifyBool Sorting.Permutation.
From Verif Require Import Base.Bytes Base.BytesP gen.Tables Lzhuf.Dec Msg.Message B2F.Secure B2F.Side B2F.SideP
  B2F.TermP B2F.CodecP B2F.CutP B2F.PairDefs B2F.PairLines B2F.PairXfer B2F.PairHs B2F.PairP B2F.PairIter B2F.DeliverP
  B2F.ConvergeP.
Import ListNotations.
Open Scope N_scope.

(* ================================================================================== *)
(* 1. Steps: the handler keeps its outbox and policy, the log grows by events of a kind *)
(* ================================================================================== *)
Definition hsig (s : sess) : list oprop * list (bytes * answer) := (h_outbox (s_h s), h_policy (s_h s)).
Definition step (P : event -> Prop) (s s' : sess) : Prop :=
  hsig s' = hsig s /\ forall e, In e (s_ev s') -> In e (s_ev s) \/ P e.

Lemma step_refl (P : event -> Prop) s : step P s s.
Proof. split; [reflexivity|intros e H; left; exact H]. Qed.
Lemma step_trans (P : event -> Prop) a b c : step P a b -> step P b c -> step P a c.
Proof.
  intros [H1 E1] [H2 E2]. split; [congruence|]. intros e H. destruct (E2 e H) as [K|K]; [apply E1, K|right; exact K].
Qed.
Lemma step_weaken (P Q : event -> Prop) s s' : (forall e, P e -> Q e) -> step P s s' -> step Q s s'.
Proof. intros HPQ [H1 E1]. split; [exact H1|]. intros e H. destruct (E1 e H); auto. Qed.
Lemma step_same (P : event -> Prop) s s' : hsig s' = hsig s -> s_ev s' = s_ev s -> step P s s'.
Proof. intros H1 H2. split; [exact H1|]. intros e H. left. rewrite <- H2. exact H. Qed.
Lemma step_eqo (P : event -> Prop) a b : eqo a b -> step P a b.
Proof. intros H. apply step_same; [unfold hsig; rewrite (eqo_h _ _ H); reflexivity|symmetry; apply eqo_ev, H]. Qed.
Lemma step_ev (P : event -> Prop) s e : P e -> step P s (ev s e).
Proof. intros H. split; [reflexivity|]. intros e' [<-|K]; [right; exact H|left; exact K]. Qed.
Lemma step_fin (P : event -> Prop) r s : step P s (fin_state r s).
Proof. apply step_same; destruct r; reflexivity. Qed.
Lemma step_hob (P : event -> Prop) s s' : step P s s' -> hob s' = hob s.
Proof. intros [H _]. apply (f_equal fst) in H. exact H. Qed.

Definition res_step {A} (P : event -> Prop) (s : sess) (r : res sess (A * sess)) : Prop :=
  match r with ROk (_, s') => step P s s' | RFail _ s' => step P s s' | RPanic => True end.
Lemma res_eqo_step {A} (P : event -> Prop) s (r : res sess (A * sess)) : res_eqo s r -> res_step P s r.
Proof. destruct r as [[a s']|e s'|]; cbn; auto using step_eqo. Qed.
Lemma res_step_trans {A} (P : event -> Prop) s s1 (r : res sess (A * sess)) : step P s s1 -> res_step P s1 r -> res_step P s r.
Proof. intros G. destruct r as [[a s']|e s'|]; cbn; auto; intros; eapply step_trans; eassumption. Qed.
Lemma res_step_weaken {A} (P Q : event -> Prop) s (r : res sess (A * sess)) :
  (forall e, P e -> Q e) -> res_step P s r -> res_step Q s r.
Proof. intros H. destruct r as [[a s']|e s'|]; cbn; auto; apply step_weaken, H. Qed.

(* ---------- the sender's phases ---------- *)
Definition isGO (e : event) : Prop := e = EvGetOutbound.
Definition isDef (e : event) : Prop := exists m, e = EvSetDeferred m.
Definition Prej (sent : list (bytes * bool)) (e : event) : Prop := exists m, e = EvSetSent m true /\ In (m, true) sent.
Definition Pacc (e : event) : Prop := exists m, e = EvSetSent m false.
Definition Pmarks (sent : list (bytes * bool)) (e : event) : Prop := e = EvBlockEnd \/ Pacc e \/ Prej sent e.

Lemma outbound_step s : step isGO s (snd (outbound s)).
Proof. unfold outbound. destruct (h_present (s_h s)); cbn [snd]; [apply step_ev; reflexivity|apply step_refl]. Qed.

Lemma fold_wr_h {B} (f : B -> bytes) l : forall s, s_h (fold_left (fun acc x => wr acc (f x)) l s) = s_h s.
Proof. induction l as [|x l IH]; intros s; cbn [fold_left]; [reflexivity|]. rewrite IH. reflexivity. Qed.

Lemma ho_propose_step (P : event -> Prop) block s0 : step P s0 (ho_propose block s0).
Proof.
  apply step_same; unfold ho_propose, hsig; cbv zeta; cbn [wr s_h s_ev].
  - rewrite (fold_wr_h (fun l => l ++ [13])). reflexivity.
  - apply (fold_wr_ev (fun l => l ++ [13])).
Qed.

Lemma send_accepted_step props : forall s ans sent,
  match send_accepted s props ans sent with
  | ROk (s', _) => step isDef s s' | RFail _ s' => step isDef s s' | RPanic => True end.
Proof.
  induction props as [|p ps IH]; intros s ans sent; cbn [send_accepted]; [apply step_refl|].
  destruct ans as [|a r]; cbn zeta iota beta; [apply IH|].
  destruct a as [|[| |] off]; try apply IH.
  - pose proof (write_compressed_ev s p off) as Hw. pose proof (write_compressed_h s p off) as Hh.
    destruct (write_compressed s p off) as [s1|e s1|]; [| |exact I].
    + assert (N1 : step isDef s s1) by (apply step_same; [unfold hsig; rewrite Hh; reflexivity|exact Hw]).
      specialize (IH s1 r ((o_mid p, false) :: sent)).
      destruct (send_accepted s1 ps r _) as [[s' l]|e s'|]; try exact I; eapply step_trans; eassumption.
    + apply step_same; [unfold hsig; rewrite Hh; reflexivity|exact Hw].
  - specialize (IH (ev (mark_gone s (o_mid p)) (EvSetDeferred (o_mid p))) r sent).
    assert (N1 : step isDef s (ev (mark_gone s (o_mid p)) (EvSetDeferred (o_mid p)))).
    { split; [reflexivity|]. intros e [<-|K]; [right; eexists; reflexivity|left; exact K]. }
    destruct (send_accepted _ ps r sent) as [[s' l]|e s'|]; try exact I; eapply step_trans; eassumption.
Qed.

Lemma mark_rej_step sent0 : forall l s, (forall x, In x l -> In x sent0) -> step (Prej sent0) s (mark_rej l s).
Proof.
  unfold mark_rej. induction l as [|mr l IH]; intros s Hin; cbn [fold_left]; [apply step_refl|].
  eapply step_trans; [|apply IH; intros x Hx; apply Hin; right; exact Hx].
  destruct mr as [m b]. cbn [snd fst]. destruct b; [|apply step_refl].
  split; [reflexivity|]. intros e [<-|K]; [right; exists m; split; [reflexivity|apply Hin; left; reflexivity]|left; exact K].
Qed.
Lemma mark_sent_step : forall l s, step Pacc s (mark_sent l s).
Proof.
  unfold mark_sent. induction l as [|mr l IH]; intros s; cbn [fold_left]; [apply step_refl|].
  eapply step_trans; [|apply IH]. destruct (snd mr); [apply step_refl|].
  split; [reflexivity|]. intros e [<-|K]; [right; eexists; reflexivity|left; exact K].
Qed.

Lemma ho_peek_step sent s4 :
  match ho_peek sent s4 with
  | ROk (_, s') => step (Pmarks sent) s4 s' /\ s_out s' = s_out s4
  | RFail _ s' => step (Pmarks sent) s4 s' /\ s_out s' = s_out s4
  | RPanic => True end.
Proof.
  unfold ho_peek. cbv zeta.
  assert (S5 : step (Pmarks sent) s4 (mark_rej sent s4)).
  { apply (step_weaken (Prej sent)); [intros e H; right; right; exact H|]. apply (mark_rej_step sent sent s4). intros x Hx; exact Hx. }
  pose proof (proj1 (mark_rej_out sent s4)) as O5.
  set (s5 := mark_rej sent s4) in *.
  assert (Bend : forall s, step (Pmarks sent) s (ev s EvBlockEnd)) by (intros s; apply step_ev; left; reflexivity).
  destruct (s_in s5) as [|b r].
  { split; [eapply step_trans; [exact S5|apply Bend]|exact O5]. }
  destruct (negb ((b =? 70) || (b =? 59))).
  - pose proof (next_line_eqo true s5) as Hq.
    destruct (next_line true s5) as [[l s']|e s'|]; cbn [res_eqo] in Hq; [| |exact I].
    + split; [eapply step_trans; [exact S5|]; eapply step_trans; [apply step_eqo, Hq|apply Bend]|].
      cbn [ev s_out]. rewrite <- (eqo_out _ _ Hq). exact O5.
    + split; [eapply step_trans; [exact S5|]; eapply step_trans; [apply step_eqo, Hq|apply Bend]|].
      cbn [ev s_out]. rewrite <- (eqo_out _ _ Hq). exact O5.
  - split.
    + eapply step_trans; [exact S5|]. eapply step_trans; [|apply Bend].
      eapply step_weaken; [|apply mark_sent_step]. intros e H. right. left. exact H.
    + cbn [ev s_out]. rewrite (proj1 (mark_sent_out sent s5)). exact O5.
Qed.

(* ---------- the receiver's proposal loop ---------- *)
Lemma answer_props_step props : forall s seen acc, step is_answer s (fst (answer_props s props seen acc)).
Proof.
  induction props as [|p r IH]; intros s seen acc; cbn [answer_props]; [apply step_refl|].
  destruct (mem_bytes (i_mid p) seen || negb ((i_code p =? Wl2kProposal) || (i_code p =? GzipProposal))
            || negb (h_present (s_h s))); [apply IH|].
  eapply step_trans; [|apply IH]. apply step_ev. eexists; eexists; reflexivity.
Qed.

Lemma il_line_step s1 props lines line :
  match il_line s1 props lines line with
  | IlDone (ROk (_, s')) => step is_answer s1 s' | IlDone (RFail _ s') => step is_answer s1 s' | _ => True end.
Proof.
  unfold il_line. destruct (prefixb str_PM line); [exact I|].
  destruct line as [|c0 rest0]; [exact I|].
  destruct (c0 =? 59); [exact I|].
  destruct ((length (c0 :: rest0) <? 2)%nat || negb (c0 =? 70)); [apply step_refl|].
  destruct rest0 as [|c1 r]; [exact I|].
  destruct (in_list c1 [65; 66; 67; 68]).
  { destruct (parse_proposal s1 (c0 :: c1 :: r)) as [p|e s'|] eqn:Ep; try exact I.
    apply parse_proposal_fail in Ep. destruct Ep as [_ ->]. apply step_refl. }
  destruct (c1 =? 70); [apply step_same; reflexivity|]. destruct (c1 =? 81); [apply step_refl|].
  destruct (c1 =? 62); [|apply step_refl].
  destruct (slice_from 2 (c0 :: c1 :: r)) as [ck|]; [|exact I]. cbv zeta.
  destruct (negb _); [apply step_refl|].
  destruct props as [|p0 pr]; [apply step_same; reflexivity|].
  pose proof (answer_props_step (rev' (p0 :: pr)) (set_nomsgs s1 false) [] []) as Ha.
  destruct (answer_props (set_nomsgs s1 false) (rev' (p0 :: pr)) [] []) as [s2 answered]. cbn [fst] in Ha.
  eapply step_trans; [apply (step_same _ s1 (set_nomsgs s1 false)); reflexivity|].
  eapply step_trans; [exact Ha|]. apply step_same; reflexivity.
Qed.

Lemma inbound_loop_step : forall f s props lines, res_step is_answer s (inbound_loop f s props lines).
Proof.
  induction f as [|f IH]; intros s props lines; [apply step_refl|]. rewrite inbound_loop_eq.
  pose proof (next_line_eqo true s) as Hn.
  destruct (next_line true s) as [[line s1]|e s1|]; cbn [res_eqo] in Hn; [|apply step_eqo, Hn|exact I].
  pose proof (il_line_step s1 props lines line) as Hl.
  destruct (il_line s1 props lines line) as [p l|[[[q pp] s2]|e s2|]].
  - eapply res_step_trans; [apply step_eqo, Hn|apply IH].
  - eapply step_trans; [apply step_eqo, Hn|exact Hl].
  - eapply step_trans; [apply step_eqo, Hn|exact Hl].
  - exact I.
Qed.

(* ================================================================================== *)
(* 2. The receiver of a block, fed an initial part of the genuine transfers: whatever   *)
(*    happens, what it hands to its handler are messages of the block                   *)
(* ================================================================================== *)
Definition Pgen (block : list oprop) (e : event) : Prop :=
  exists p mid d ok, e = EvProcess mid d ok /\ In p block /\ proposal_message (o_cdata p) = MOk mid d.

Lemma Pgen_cons p0 ps e : Pgen ps e -> Pgen (p0 :: ps) e.
Proof. intros (p&mid&d&ok&E&Hp&Hm). exists p, mid, d, ok. split; [exact E|]. split; [right; exact Hp|exact Hm]. Qed.

Lemma receive_any block : forall answers s Y,
  length answers = length block -> Forall prop_syn block ->
  prefix (s_in s) (xfers block answers ++ Y) ->
  match receive_accepted s (zip_props block answers) with
  | RcOk s' => prefix (s_in s') Y /\ step (Pgen block) s s'
  | RcErr _ s' => step (Pgen block) s s'
  | _ => True
  end.
Proof.
  induction block as [|p0 ps IH]; intros answers s Y Hl Hf Hp.
  { destruct answers; [|discriminate]. cbn in Hp |- *. split; [exact Hp|apply step_refl]. }
  destruct answers as [|a0 r]; [discriminate|]. cbn [length] in Hl. injection Hl as Hl.
  inversion Hf as [|? ? Hsyn Hf']; subst.
  change (zip_props (p0 :: ps) (a0 :: r)) with (iprop_of p0 a0 :: zip_props ps r).
  cbn [receive_accepted]. change (i_answer (iprop_of p0 a0)) with a0. cbn [xfers] in Hp.
  assert (Hrest : forall s0 : sess, prefix (s_in s0) (xfers ps r ++ Y) ->
            match receive_accepted s0 (zip_props ps r) with
            | RcOk s' => prefix (s_in s') Y /\ step (Pgen (p0 :: ps)) s0 s'
            | RcErr _ s' => step (Pgen (p0 :: ps)) s0 s'
            | _ => True
            end).
  { intros s0 Hp0. specialize (IH r s0 Y Hl Hf' Hp0).
    destruct (receive_accepted s0 (zip_props ps r)) as [s'|e s'| |]; try exact I.
    - destruct IH as [I1 I2]. split; [exact I1|]. eapply step_weaken; [apply Pgen_cons|exact I2].
    - eapply step_weaken; [apply Pgen_cons|exact IH]. }
  destruct a0; [|apply Hrest; exact Hp..].
  rewrite <- app_assoc in Hp.
  set (R := xfers ps r ++ Y) in *.
  set (ip := iprop_of p0 AAccept) in *.
  pose proof (read_compressed_eqo s ip) as Hq.
  destruct (read_compressed s ip) as [[cd s1]|e s1|] eqn:Hshort; cbn [res_eqo] in Hq; [|apply step_eqo, Hq|exact I].
  destruct (in_dec N.eq_dec 0 (firstn 80 (o_title p0))) as [Hnul|Htitle].
  { exfalso. eapply read_compressed_nul_title; [exact Hnul|exact Hp|exact Hshort]. }
  destruct Hp as [x Hx].
  assert (Hin : s_in (ext x s) = xfer_bytes p0 ++ R) by (symmetry; exact Hx).
  pose proof (read_compressed_xfer (ext x s) p0 ip R Htitle eq_refl Hin) as Hlong.
  destruct (read_compressed_agree _ _ _ _ _ _ _ Hshort Hlong) as [Hcd [j' Hj]]. subst cd.
  assert (HR : R = s_in s1 ++ j') by (apply (f_equal s_in) in Hj; exact Hj).
  destruct (proposal_message (o_cdata p0)) as [mid0 data0|e|] eqn:Hm0; [|apply step_eqo, Hq|exact I].
  assert (Hev : forall ok, step (Pgen (p0 :: ps)) s (ev s1 (EvProcess mid0 data0 ok))).
  { intros ok. eapply step_trans; [apply step_eqo, Hq|]. apply step_ev.
    exists p0, mid0, data0, ok. split; [reflexivity|]. split; [left; reflexivity|exact Hm0]. }
  destruct (mem_bytes mid0 (h_fail (s_h s1))); [apply Hev|].
  set (s2 := add_recv (ev s1 (EvProcess mid0 data0 (negb false))) (i_mid ip)) in *.
  assert (Hp2 : prefix (s_in s2) (xfers ps r ++ Y)) by (exists j'; exact HR).
  assert (S2 : step (Pgen (p0 :: ps)) s s2).
  { eapply step_trans; [apply (Hev (negb false))|]. apply step_same; reflexivity. }
  specialize (Hrest s2 Hp2).
  destruct (receive_accepted s2 (zip_props ps r)) as [s'|e s'| |]; try exact I.
  - destruct Hrest as [I1 I2]. split; [exact I1|eapply step_trans; eassumption].
  - eapply step_trans; eassumption.
Qed.

(* ---------- the answers come from the policy ---------- *)
Definition ans_ok (h : hstate) (p q : iprop) : Prop :=
  i_mid q = i_mid p /\ (i_answer q = AReject -> policy_of h (i_mid p) = AReject).

Lemma answer_props_ans : forall props s seen acc,
  exists L, snd (answer_props s props seen acc) = rev acc ++ L /\ Forall2 (ans_ok (s_h s)) props L.
Proof.
  induction props as [|p r IH]; intros s seen acc; cbn [answer_props].
  { exists []. cbn [snd]. rewrite rev'_rev, app_nil_r. split; [reflexivity|constructor]. }
  destruct (mem_bytes (i_mid p) seen || negb ((i_code p =? Wl2kProposal) || (i_code p =? GzipProposal))
            || negb (h_present (s_h s))).
  - destruct (IH s (i_mid p :: seen) (with_answer p ADefer :: acc)) as (L&E&F).
    exists (with_answer p ADefer :: L). split; [rewrite E; cbn [rev]; rewrite <- app_assoc; reflexivity|].
    constructor; [split; [reflexivity|discriminate]|exact F].
  - destruct (IH (ev s (EvAnswer (i_mid p) (policy_of (s_h s) (i_mid p)))) (i_mid p :: seen)
                 (with_answer p (policy_of (s_h s) (i_mid p)) :: acc)) as (L&E&F).
    exists (with_answer p (policy_of (s_h s) (i_mid p)) :: L).
    split; [rewrite E; cbn [rev]; rewrite <- app_assoc; reflexivity|].
    constructor; [split; [reflexivity|intros H; exact H]|exact F].
Qed.

Lemma zip_ans_ok h : forall block answers, length answers = length block ->
  Forall2 (ans_ok h) (map (fun p => iprop_of p ADefer) block) (zip_props block answers) ->
  forall p a, In (p, a) (combine block answers) -> a = AReject -> policy_of h (o_mid p) = AReject.
Proof.
  induction block as [|p0 ps IH]; intros answers Hl HF p a Hin Ha; [destruct Hin|].
  destruct answers as [|a0 r]; [discriminate|]. cbn [length] in Hl. injection Hl as Hl.
  change (zip_props (p0 :: ps) (a0 :: r)) with (iprop_of p0 a0 :: zip_props ps r) in HF. cbn [map] in HF.
  inversion HF as [|? ? ? ? H1 H2]; subst. cbn [combine] in Hin. destruct Hin as [E|Hin].
  - inversion E; subst. destruct H1 as [_ H1]. apply H1. reflexivity.
  - eapply IH; [exact Hl|exact H2|exact Hin|reflexivity].
Qed.

(* PairP.recv_block, with the origin of the answers *)
Lemma recv_block_pol sy block R :
  block <> [] -> Forall prop_syn block -> prefix (s_in sy) (proposal_bytes block ++ R) ->
  (exists answers sy1, length answers = length block /\
     inbound_loop (S (length (s_in sy))) sy [] [] = ROk (false, zip_props block answers, sy1) /\
     prefix (s_in sy1) R /\ wire sy1 = wire sy ++ fs_line answers /\ s_h sy1 = s_h sy /\
     (forall p a, In (p, a) (combine block answers) -> a = AReject -> policy_of (s_h sy) (o_mid p) = AReject))
  \/ (exists s', inbound_loop (S (length (s_in sy))) sy [] [] = RFail EConnLost s' /\ eqo sy s').
Proof.
  intros Hne Hsyn [i2 Hi].
  pose proof (inbound_block block (ext i2 sy) R (S (length (s_in sy ++ i2))) Hne Hsyn) as Hfull.
  cbn [ext set_in s_in] in Hfull. specialize (Hfull (eq_sym Hi) ltac:(lia)).
  change (set_in sy (s_in sy ++ i2)) with (ext i2 sy) in Hfull.
  set (sR := set_nomsgs (set_in (ext i2 sy) R) false) in *.
  destruct (answer_props_zip block sR) as (answers&Hlen&Hz).
  destruct (answer_props_ans (map (fun p => iprop_of p ADefer) block) sR [] []) as (L&EL&FL).
  cbn [rev app] in EL. rewrite Hz in EL. subst L.
  pose proof (answer_props_out (map (fun p => iprop_of p ADefer) block) sR [] []) as [Ho Hh].
  pose proof (answer_props_facts (map (fun p => iprop_of p ADefer) block) sR [] []) as [Hin _].
  destruct (answer_props sR (map (fun p => iprop_of p ADefer) block) [] []) as [sB answered] eqn:Eap.
  cbn [fst snd] in *. subst answered.
  pose proof (inbound_loop_ext i2 (S (length (s_in sy))) (S (length (s_in sy ++ i2))) sy [] []) as Rx.
  unfold inlen in Rx. rewrite app_length in Rx. specialize (Rx ltac:(lia) ltac:(lia)).
  rewrite <- app_length in Rx.
  rewrite Hfull in Rx. apply relx_back in Rx. destruct Rx as [(s1&E1&E2)|(s1&E1)].
  - left. exists answers, s1. split; [exact Hlen|]. split; [exact E1|].
    rewrite (zip_answers _ _ Hlen) in E2.
    split; [|split; [|split]].
    + exists i2. apply (f_equal s_in) in E2. cbn [wr ext set_in s_in] in E2. rewrite <- E2, Hin. reflexivity.
    + apply (f_equal s_out) in E2. cbn [wr ext set_in s_out] in E2. unfold wire. rewrite <- E2, Ho.
      cbn [rev]. rewrite concat_app. cbn [concat]. rewrite app_nil_r. reflexivity.
    + apply (f_equal s_h) in E2. cbn [wr ext set_in s_h] in E2. rewrite <- E2, Hh. reflexivity.
    + exact (zip_ans_ok (s_h sy) block answers Hlen FL).
  - right. exists s1. split; [exact E1|]. eapply inbound_loop_lost_eqo; exact E1.
Qed.

Lemma sent_of_rejected block : forall answers m, In (m, true) (sent_of block answers) ->
  exists p, In (p, AReject) (combine block answers) /\ o_mid p = m.
Proof.
  induction block as [|p ps IH]; intros answers m H; [destruct H|].
  destruct answers as [|a r]; [destruct H|]. cbn [sent_of combine] in *.
  apply in_app_or in H. destruct H as [H|H].
  - destruct a; cbn in H.
    + destruct H as [E|[]]. discriminate E.
    + destruct H as [E|[]]. inversion E; subst. exists p. split; [left; reflexivity|reflexivity].
    + destruct H.
  - destruct (IH r m H) as (q & Hq & Em). exists q. split; [right; exact Hq|exact Em].
Qed.

(* PairP.send_transfer, with the events *)
Lemma send_transfer_step block answers s3 :
  length answers = length block -> Forall prop_syn block ->
  exists s4, ho_transfer block ([70; 83; 32] ++ map answer_byte answers) s3 = ho_peek (sent_of block answers) s4 /\
    wire s4 = wire s3 ++ xfers block answers /\ s_in s4 = s_in s3 /\ step isDef s3 s4.
Proof.
  intros Hlen Hsyn. unfold ho_transfer.
  assert (Hs : slice_from 3 ([70; 83; 32] ++ map answer_byte answers) = Some (map answer_byte answers)) by reflexivity.
  rewrite Hs.
  rewrite (parse_answers_bytes answers (S (length (map answer_byte answers))) (length block) [])
    by (rewrite ?map_length; lia).
  cbn [rev' rev_append app].
  destruct (send_accepted_zero block answers s3 [] Hlen Hsyn) as (s4&E&Hw&Hi&Hh).
  pose proof (send_accepted_step block s3 (map (fun a => PAns a 0%Z) answers) []) as Hn.
  rewrite E in Hn |- *. exists s4. rewrite app_nil_r, rev'_rev, rev_involutive.
  split; [reflexivity|]. split; [exact Hw|]. split; [exact Hi|exact Hn].
Qed.

(* PairP.recv_tail, keeping what the receiver did *)
Lemma recv_tail_cases s props s1 :
  inbound_loop (S (length (s_in s))) s [] [] = ROk (false, props, s1) ->
  exists T3, wire (final false s) = wire s1 ++ T3 /\
    ((exists s2, receive_accepted s1 props = RcOk s2 /\ T3 = tailw true s2 /\ final false s = final true s2)
     \/ (prefix T3 echo /\
         ((exists e s2, receive_accepted s1 props = RcErr e s2 /\ final false s = fin_state (xerr e) s2)
          \/ (receive_accepted s1 props = RcUnknown /\ final false s = s1)))).
Proof.
  intros E. pose proof (receive_accepted_silent props s1) as Hs. pose proof (receive_accepted_nopanic props s1) as Np.
  destruct (receive_accepted s1 props) as [s2|e s2| |] eqn:Er; [| |congruence|].
  - destruct Hs as [Ho _]. exists (tailw true s2). split.
    + rewrite (final_recv_ok _ _ _ _ E Er), tailw_eq, (wire_out _ _ Ho). reflexivity.
    + left. exists s2. split; [reflexivity|]. split; [reflexivity|apply (final_recv_ok _ _ _ _ E Er)].
  - pose proof (final_recv_err _ _ _ _ _ _ E Er) as Hf. rewrite Hf. destruct e; cbn [xerr fin_state].
    + exists []. split; [rewrite app_nil_r; apply wire_out, Hs|]. right. split; [apply prefix_nil|]. left. eauto.
    + exists echo. split; [rewrite wire_wr, (wire_out _ _ Hs); reflexivity|]. right. split; [apply prefix_refl|]. left. eauto.
  - pose proof (final_recv_unknown _ _ _ _ E Er) as Hf. rewrite Hf. exists [].
    split; [rewrite app_nil_r; reflexivity|]. right. split; [apply prefix_nil|]. right. split; reflexivity.
Qed.

(* a sender with nothing to read does not get an answer *)
Lemma sender_noreply s2 : s_in s2 = [] ->
  exists e s3, read_reply (S (length (s_in s2))) s2 = RFail e s3 /\ eqo s2 s3.
Proof.
  intros Hin. pose proof (read_reply_eqo (S (length (s_in s2))) s2) as Hq.
  pose proof (read_reply_nopanic (S (length (s_in s2))) s2) as Np.
  destruct (read_reply (S (length (s_in s2))) s2) as [[l s3]|e s3|] eqn:Er; [| |congruence].
  - apply TermP.read_reply_ok in Er. unfold inlen in Er. rewrite Hin in Er. cbn in Er. lia.
  - exists e, s3. split; [reflexivity|exact Hq].
Qed.

(* ================================================================================== *)
(* 3. A side whose peer has stopped: all it can still read is (part of) the error report *)
(* ================================================================================== *)
Lemma next_line_echo s : prefix (s_in s) echo -> exists e s', next_line true s = RFail e s' /\ eqo s s'.
Proof.
  intros Hp. pose proof (next_line_eqo true s) as Hq.
  assert (K : forall l s', next_line true s <> ROk (l, s')).
  { intros l s'. unfold next_line. apply prefix_echo_cases in Hp.
    destruct Hp as [E|[E|[E|[E|[E|[E|[E|E]]]]]]]; rewrite E; vm_compute; discriminate. }
  pose proof (next_line_nopanic true s) as Np.
  destruct (next_line true s) as [[l s']|e s'|]; [exfalso; eapply K; reflexivity| |congruence].
  exists e, s'. split; [reflexivity|exact Hq].
Qed.

Lemma quiet_recv s : prefix (s_in s) echo -> step isGO s (final false s).
Proof.
  intros Hp. destruct (next_line_echo s Hp) as (e&s'&En&Hq).
  assert (Ei : inbound_loop (S (length (s_in s))) s [] [] = RFail e s') by (rewrite inbound_loop_eq, En; reflexivity).
  rewrite (final_recv_fail _ _ _ Ei). eapply step_trans; [apply step_eqo, Hq|apply step_fin].
Qed.

Lemma quiet_send s : prefix (s_in s) echo -> step isGO s (final true s).
Proof.
  intros Hp. destruct (outbound s) as [props s0] eqn:Eo.
  pose proof (outbound_step s) as S0. rewrite Eo in S0. cbn [snd] in S0.
  destruct props as [|p ps].
  - destruct (outbound_block _ _ _ Eo) as (_&E0&_).
    assert (Hho : handle_outbound s = ROk (s_remote_nomsgs s0, wr s0 (if s_remote_nomsgs s0 then [70; 81; 13] else [70; 70; 13])))
      by (rewrite handle_outbound_eq, Eo; reflexivity).
    destruct (s_remote_nomsgs s0).
    + rewrite (final_send_quit _ _ Hho). eapply step_trans; [exact S0|apply step_same; reflexivity].
    + rewrite (final_send_ok _ _ Hho). eapply step_trans; [exact S0|].
      eapply step_trans; [apply (step_same _ s0 (wr s0 [70; 70; 13])); reflexivity|].
      apply quiet_recv. cbn [wr s_in]. rewrite E0. exact Hp.
  - destruct (send_start _ _ _ _ Eo) as (_&_&E2&_&_&_&Hstep). cbv zeta in *.
    set (block := firstn (N.to_nat MaxBlockSize) (p :: ps)) in *. set (s2 := ho_propose block s0) in *.
    assert (Hp2 : prefix (s_in s2) echo) by (rewrite E2; exact Hp).
    destruct (next_line_echo s2 Hp2) as (e&s'&En&Hq).
    assert (Er : read_reply (S (length (s_in s2))) s2 = RFail e s') by (cbn [read_reply]; rewrite En; reflexivity).
    rewrite Er in Hstep. rewrite (final_send_fail _ _ _ Hstep).
    eapply step_trans; [exact S0|]. eapply step_trans; [apply ho_propose_step|].
    eapply step_trans; [apply step_eqo, Hq|apply step_fin].
Qed.

(* ================================================================================== *)
(* 4. One turn of the pair, whatever its outcome                                       *)
(* ================================================================================== *)
(* what a side may record, given the outbox and the policy of its peer: what it hands to its
   handler is a message of the peer's outbox; it records "rejected" only if the peer's policy
   rejects *)
Definition Pk (sg : list oprop * list (bytes * answer)) (e : event) : Prop :=
  match e with
  | EvProcess mid d _ => exists p, In p (fst sg) /\ proposal_message (o_cdata p) = MOk mid d
  | EvSetSent m true => pol_go m (snd sg) = AReject
  | _ => True
  end.

Lemma Pk_GO sg e : isGO e -> Pk sg e. Proof. intros ->. exact I. Qed.
Lemma Pk_Def sg e : isDef e -> Pk sg e. Proof. intros [m ->]. exact I. Qed.
Lemma Pk_Ans sg e : is_answer e -> Pk sg e. Proof. intros (m&a&->). exact I. Qed.
Lemma Pk_gen sg block e : (forall q, In q block -> In q (fst sg)) -> Pgen block e -> Pk sg e.
Proof. intros Hb (p&mid&d&ok&->&Hp&Hm). exists p. split; [apply Hb, Hp|exact Hm]. Qed.

(* how a side goes on after the turn: at a new boundary (Some), or it has stopped (None) *)
Definition after (P : event -> Prop) (my : bool) (s : sess) (my' : bool) (c : option sess) : Prop :=
  match c with
  | Some s' => final my s = final my' s' /\ step P s s'
  | None => step P s (final my s)
  end.
(* cx: the sender of the turn (it receives next), cy: the receiver (it sends next) *)
Definition link (cx cy : option sess) : Prop :=
  match cx, cy with
  | Some sx', Some sy2 => prefix (s_in sx') (tailw true sy2) /\ prefix (s_in sy2) (tailw false sx')
  | Some sx', None => prefix (s_in sx') echo
  | None, Some sy2 => prefix (s_in sy2) echo
  | None, None => True
  end.
Definition less (cx cy : option sess) (sx sy : sess) : Prop :=
  match cx, cy with
  | Some sx', Some sy2 => (inlen sx' + inlen sy2 < inlen sx + inlen sy)%nat
  | _, _ => True
  end.

Lemma fin_state_wire r s : exists Y, wire (fin_state r s) = wire s ++ Y /\ prefix Y echo.
Proof.
  destruct r; cbn [fin_state]; try (exists []; split; [symmetry; apply app_nil_r|apply prefix_nil]).
  exists echo. split; [apply wire_wr|apply prefix_refl].
Qed.

(* the receiver's half of a turn with a block, once it is known what the sender wrote after it *)
Lemma finish_turn (PY : event -> Prop) sx sy block answers sy1 T3 Y cx :
  length answers = length block -> Forall prop_syn block ->
  (forall e, Pgen block e -> PY e) -> (forall e, is_answer e -> PY e) ->
  inbound_loop (S (length (s_in sy))) sy [] [] = ROk (false, zip_props block answers, sy1) ->
  ((exists s2, receive_accepted sy1 (zip_props block answers) = RcOk s2 /\ T3 = tailw true s2 /\ final false sy = final true s2)
   \/ (prefix T3 echo /\
       ((exists e s2, receive_accepted sy1 (zip_props block answers) = RcErr e s2 /\ final false sy = fin_state (xerr e) s2)
        \/ (receive_accepted sy1 (zip_props block answers) = RcUnknown /\ final false sy = sy1)))) ->
  prefix (s_in sy1) (xfers block answers ++ Y) ->
  match cx with
  | Some sx' => Y = tailw false sx' /\ prefix (s_in sx') T3 /\ (inlen sx' <= inlen sx)%nat
  | None => prefix Y echo
  end ->
  exists cy, after PY false sy true cy /\ link cx cy /\ less cx cy sx sy.
Proof.
  intros Hlen Hsyn HG HA Ei Hcase P1 Hcx.
  pose proof (inbound_loop_step (S (length (s_in sy))) sy [] []) as S1. rewrite Ei in S1. cbn [res_step] in S1.
  apply (step_weaken _ PY _ _ HA) in S1.
  pose proof (receive_any block answers sy1 Y Hlen Hsyn P1) as RG.
  destruct Hcase as [(sy2&Erc&HT&Hf)|(HTe&[(e&s2&Erc&Hf)|(Erc&Hf)])]; rewrite Erc in RG.
  - destruct RG as [J1 J2]. apply (step_weaken _ PY _ _ HG) in J2.
    exists (Some sy2). split; [split; [exact Hf|eapply step_trans; eassumption]|].
    destruct cx as [sx'|]; cbn [link less].
    + destruct Hcx as (HY&HP3&Hl). split; [split; [rewrite <- HT; exact HP3|rewrite <- HY; exact J1]|].
      pose proof (TermP.inbound_loop_ok _ _ _ _ _ _ _ Ei) as L1. pose proof (receive_accepted_inlen (zip_props block answers) sy1) as L2.
      rewrite Erc in L2. lia.
    + split; [eapply prefix_trans; eassumption|exact I].
  - apply (step_weaken _ PY _ _ HG) in RG.
    exists None. split; [cbn [after]; rewrite Hf; eapply step_trans; [exact S1|]; eapply step_trans; [exact RG|apply step_fin]|].
    destruct cx as [sx'|]; cbn [link less]; [|split; exact I].
    destruct Hcx as (_&HP3&_). split; [eapply prefix_trans; eassumption|exact I].
  - exists None. split; [cbn [after]; rewrite Hf; exact S1|].
    destruct cx as [sx'|]; cbn [link less]; [|split; exact I].
    destruct Hcx as (_&HP3&_). split; [eapply prefix_trans; eassumption|exact I].
Qed.

Lemma joint_turn sx sy :
  side_ok sx -> prefix (s_in sx) (tailw false sy) -> prefix (s_in sy) (tailw true sx) ->
  exists cx cy, after (Pk (hsig sy)) true sx false cx /\ after (Pk (hsig sx)) false sy true cy /\
                link cx cy /\ less cx cy sx sy.
Proof.
  intros Hok I1 I2.
  destruct (outbound sx) as [props s0] eqn:Eo.
  pose proof (outbound_step sx) as S0. rewrite Eo in S0. cbn [snd] in S0.
  apply (step_weaken _ (Pk (hsig sy)) _ _ (Pk_GO _)) in S0.
  destruct props as [|p ps].
  - (* nothing to propose: FF or FQ *)
    destruct (outbound_block _ _ _ Eo) as (_&E0&O0&H0&N0).
    assert (Hho : handle_outbound sx = ROk (s_remote_nomsgs s0, wr s0 (if s_remote_nomsgs s0 then [70; 81; 13] else [70; 70; 13])))
      by (rewrite handle_outbound_eq, Eo; reflexivity).
    pose proof (inbound_loop_ext) as Hext.
    destruct (s_remote_nomsgs s0) eqn:Eq.
    + exists None.
      assert (AX : after (Pk (hsig sy)) true sx false None).
      { cbn [after]. rewrite (final_send_quit _ _ Hho). eapply step_trans; [exact S0|apply step_same; reflexivity]. }
      assert (Ht : tailw true sx = [70; 81; 13] ++ []).
      { apply tailw_intro. rewrite (final_send_quit _ _ Hho), wire_wr, (wire_out _ _ O0), app_nil_r. reflexivity. }
      rewrite Ht in I2. destruct I2 as [i2 Hi].
      pose proof (inbound_fq (ext i2 sy) [] (S (length (s_in sy ++ i2)))) as Hfull.
      cbn [ext set_in s_in] in Hfull. specialize (Hfull (eq_sym Hi) ltac:(lia)).
      change (set_in sy (s_in sy ++ i2)) with (ext i2 sy) in Hfull.
      specialize (Hext i2 (S (length (s_in sy))) (S (length (s_in sy ++ i2))) sy [] []).
      unfold inlen in Hext. rewrite app_length in Hext. specialize (Hext ltac:(lia) ltac:(lia)).
      rewrite <- app_length in Hext. rewrite Hfull in Hext. apply relx_back in Hext.
      destruct Hext as [(s1&E1&E2)|(s1&E1)].
      * exists None. split; [exact AX|]. split; [|split; exact I].
        cbn [after]. rewrite (final_recv_quit sy [] s1 s1 E1 eq_refl).
        apply step_same; [unfold hsig; apply (f_equal s_h) in E2; cbn in E2; rewrite <- E2; reflexivity|].
        apply (f_equal s_ev) in E2. cbn in E2. symmetry. exact E2.
      * exists None. split; [exact AX|]. split; [|split; exact I].
        cbn [after]. rewrite (final_recv_fail _ _ _ E1). cbn [xerr fin_state].
        apply step_eqo. eapply inbound_loop_lost_eqo; exact E1.
    + set (sx' := wr s0 [70; 70; 13]) in *. exists (Some sx').
      assert (AX : after (Pk (hsig sy)) true sx false (Some sx')).
      { cbn [after]. split; [apply (final_send_ok _ _ Hho)|]. eapply step_trans; [exact S0|apply step_same; reflexivity]. }
      assert (Ht : tailw true sx = [70; 70; 13] ++ tailw false sx').
      { apply tailw_intro. rewrite (final_send_ok _ _ Hho), tailw_eq. unfold sx'. rewrite wire_wr, (wire_out _ _ O0), <- app_assoc. reflexivity. }
      rewrite Ht in I2. destruct I2 as [i2 Hi].
      pose proof (inbound_ff (ext i2 sy) (tailw false sx') (S (length (s_in sy ++ i2)))) as Hfull.
      cbn [ext set_in s_in] in Hfull. specialize (Hfull (eq_sym Hi) ltac:(lia)).
      change (set_in sy (s_in sy ++ i2)) with (ext i2 sy) in Hfull.
      specialize (Hext i2 (S (length (s_in sy))) (S (length (s_in sy ++ i2))) sy [] []).
      unfold inlen in Hext. rewrite app_length in Hext. specialize (Hext ltac:(lia) ltac:(lia)).
      rewrite <- app_length in Hext. rewrite Hfull in Hext. apply relx_back in Hext.
      destruct Hext as [(s1&E1&E2)|(s1&E1)].
      * exists (Some s1). split; [exact AX|].
        assert (Ho : s_out s1 = s_out sy) by (apply (f_equal s_out) in E2; cbn in E2; symmetry; exact E2).
        assert (Hty : tailw false sy = tailw true s1).
        { apply tailw_intro. rewrite (final_recv_ok sy [] s1 s1 E1 eq_refl), tailw_eq, (wire_out _ _ Ho). reflexivity. }
        split; [|split].
        -- cbn [after]. split; [apply (final_recv_ok sy [] s1 s1 E1 eq_refl)|].
           apply step_same; [unfold hsig; apply (f_equal s_h) in E2; cbn in E2; rewrite <- E2; reflexivity|].
           apply (f_equal s_ev) in E2. cbn in E2. symmetry. exact E2.
        -- cbn [link]. split; [unfold sx'; cbn [wr s_in]; rewrite E0, <- Hty; exact I1|].
           exists i2. apply (f_equal s_in) in E2. cbn [ext set_in set_nomsgs s_in] in E2. exact E2.
        -- cbn [less]. pose proof (TermP.inbound_loop_ok _ _ _ _ _ _ _ E1) as L1.
           unfold inlen in *. unfold sx'. cbn [wr s_in]. rewrite E0. lia.
      * exists None. split; [exact AX|]. split; [|split; [|exact I]].
        -- cbn [after]. rewrite (final_recv_fail _ _ _ E1). cbn [xerr fin_state].
           apply step_eqo. eapply inbound_loop_lost_eqo; exact E1.
        -- cbn [link]. assert (Hty : tailw false sy = []).
           { apply tailw_intro. rewrite (final_recv_fail _ _ _ E1). cbn [xerr fin_state].
             rewrite app_nil_r. symmetry. apply wire_eqo. eapply inbound_loop_lost_eqo; exact E1. }
           rewrite Hty in I1. apply prefix_of_nil in I1. unfold sx'. cbn [wr s_in]. rewrite E0, I1. apply prefix_nil.
  - (* a block of proposals *)
    destruct (send_start _ _ _ _ Eo) as (Hbne&Hbin&E2&W2&Hh2&N2&Hstep). pose proof (send_grows _ _ _ _ Eo) as G2.
    cbv zeta in *.
    set (block := firstn (N.to_nat MaxBlockSize) (p :: ps)) in *. set (s2 := ho_propose block s0) in *.
    assert (S2 : step (Pk (hsig sy)) sx s2) by (eapply step_trans; [exact S0|apply ho_propose_step]).
    clearbody s2. clearbody block.
    assert (Hsyn : Forall prop_syn block).
    { apply Forall_forall. intros q Hq. apply (proj1 (Forall_forall _ _) Hok). apply Hbin, Hq. }
    destruct (grows_wire _ _ G2) as [T2 HT2].
    assert (Ht : tailw true sx = proposal_bytes block ++ T2).
    { apply tailw_intro. rewrite HT2, W2, <- app_assoc. reflexivity. }
    rewrite Ht in I2.
    destruct (recv_block_pol sy block T2 Hbne Hsyn I2) as [(answers&sy1&Hlen&Ei&P1&W1&Hh1&HR)|(s'&Ei&Qi)].
    2:{ (* the receiver has not seen the whole block: it stops, and so does the sender *)
        assert (Hty : tailw false sy = []).
        { apply tailw_intro. rewrite (final_recv_fail _ _ _ Ei). cbn [xerr fin_state].
          rewrite app_nil_r. symmetry. apply wire_eqo. exact Qi. }
        rewrite Hty in I1. apply prefix_of_nil in I1.
        destruct (sender_noreply s2 ltac:(rewrite E2; exact I1)) as (e&s3&Er&Q3).
        rewrite Er in Hstep. exists None, None. split; [|split; [|split; exact I]].
        - cbn [after]. rewrite (final_send_fail _ _ _ Hstep).
          eapply step_trans; [exact S2|]. eapply step_trans; [apply step_eqo, Q3|apply step_fin].
        - cbn [after]. rewrite (final_recv_fail _ _ _ Ei). cbn [xerr fin_state]. apply step_eqo, Qi. }
    assert (Hane : answers <> []) by (intros ->; destruct block; [congruence|discriminate]).
    destruct (recv_tail_cases _ _ _ Ei) as (T3&HT3&Hcase).
    assert (Hty : tailw false sy = fs_line answers ++ T3).
    { apply tailw_intro. rewrite HT3, W1, <- app_assoc. reflexivity. }
    rewrite Hty, <- E2 in I1.
    assert (HGen : forall e, Pgen block e -> Pk (hsig sx) e) by (intros e; apply Pk_gen; exact Hbin).
    assert (Fin : forall cx Y, after (Pk (hsig sy)) true sx false cx ->
              prefix (s_in sy1) (xfers block answers ++ Y) ->
              match cx with
              | Some sx' => Y = tailw false sx' /\ prefix (s_in sx') T3 /\ (inlen sx' <= inlen sx)%nat
              | None => prefix Y echo
              end ->
              exists cx cy, after (Pk (hsig sy)) true sx false cx /\ after (Pk (hsig sx)) false sy true cy /\
                            link cx cy /\ less cx cy sx sy).
    { intros cx Y AX P1' Hcx.
      destruct (finish_turn (Pk (hsig sx)) sx sy block answers sy1 T3 Y cx Hlen Hsyn HGen (Pk_Ans _) Ei Hcase P1' Hcx)
        as (cy&AY&HL&HS).
      exists cx, cy. repeat (split; [assumption|]); assumption. }
    destruct (send_reply s2 answers T3 Hane I1) as [(s3&Er&P3&Q3)|(s'&Er&Q3)]; rewrite Er in Hstep.
    2:{ (* the sender does not get the answer: it has written nothing after the block *)
        apply (Fin None []).
        - cbn [after]. rewrite (final_send_fail _ _ _ Hstep).
          eapply step_trans; [exact S2|]. eapply step_trans; [apply step_eqo, Q3|apply step_fin].
        - rewrite (final_send_fail _ _ _ Hstep) in HT2. cbn [xerr fin_state] in HT2.
          rewrite <- (wire_eqo _ _ Q3) in HT2. rewrite <- (app_nil_r (wire s2)) in HT2 at 1.
          apply app_inv_head in HT2. subst T2. apply prefix_of_nil in P1. rewrite P1. apply prefix_nil.
        - apply prefix_nil. }
    destruct (send_transfer_step block answers s3 Hlen Hsyn) as (s4&Etr&W4&I4&S4).
    cbn [app] in Etr, Hstep. rewrite Etr in Hstep.
    assert (WM : forall e, Pmarks (sent_of block answers) e -> Pk (hsig sy) e).
    { intros e [->|[[m ->]|(m&->&Hin)]]; try exact I.
      destruct (sent_of_rejected _ _ _ Hin) as (q&Hq&<-). exact (HR q AReject Hq eq_refl). }
    assert (S4' : step (Pk (hsig sy)) sx s4).
    { eapply step_trans; [exact S2|]. eapply step_trans; [apply step_eqo, Q3|].
      eapply step_weaken; [apply Pk_Def|exact S4]. }
    pose proof (ho_peek_step (sent_of block answers) s4) as Hpk.
    assert (Ws4 : wire s4 = wire s2 ++ xfers block answers) by (rewrite W4, <- (wire_eqo _ _ Q3); reflexivity).
    assert (Kfail : forall e s', ho_peek (sent_of block answers) s4 = RFail e s' ->
              exists cx cy, after (Pk (hsig sy)) true sx false cx /\ after (Pk (hsig sx)) false sy true cy /\
                            link cx cy /\ less cx cy sx sy).
    { intros e s' Hp. rewrite Hp in Hpk, Hstep. destruct Hpk as [Sp Op].
      destruct (fin_state_wire (xerr e) s') as (Y&HY&HYe).
      apply (Fin None Y).
      - cbn [after]. rewrite (final_send_fail _ _ _ Hstep).
        eapply step_trans; [exact S4'|]. eapply step_trans; [eapply step_weaken; [exact WM|exact Sp]|apply step_fin].
      - rewrite (final_send_fail _ _ _ Hstep), HY, (wire_out _ _ Op), Ws4, <- app_assoc in HT2.
        apply app_inv_head in HT2. subst T2. exact P1.
      - exact HYe. }
    destruct (peek_cases (sent_of block answers) s4) as [[E4 Hp]|[(b&r&Eb&Hb&Hp)|(b&r&e&s'&Eb&Hb1&Hb2&Hp)]].
    + eapply Kfail; exact Hp.
    + rewrite Hp in Hpk, Hstep. destruct Hpk as [Sp Op].
      set (sx' := ev (mark_sent (sent_of block answers) (mark_rej (sent_of block answers) s4)) EvBlockEnd) in *.
      assert (Ein' : s_in sx' = s_in s3) by (unfold sx'; cbn [ev s_in]; rewrite mark_sent_in, mark_rej_in; exact I4).
      apply (Fin (Some sx') (tailw false sx')).
      * cbn [after]. split; [apply (final_send_ok _ _ Hstep)|].
        eapply step_trans; [exact S4'|]. eapply step_weaken; [exact WM|exact Sp].
      * rewrite (final_send_ok _ _ Hstep), tailw_eq, (wire_out _ _ Op), Ws4, <- app_assoc in HT2.
        apply app_inv_head in HT2. subst T2. exact P1.
      * split; [reflexivity|]. split; [rewrite Ein'; exact P3|].
        pose proof (TermP.read_reply_ok _ _ _ _ Er) as L3. unfold inlen in *. rewrite Ein'. rewrite E2 in L3. lia.
    + eapply Kfail; exact Hp.
Qed.

(* ================================================================================== *)
(* 5. The run of the pair from a turn boundary to the end, whatever the end is          *)
(* ================================================================================== *)
Lemma joint_cut : forall n sx sy,
  (inlen sx + inlen sy < n)%nat -> side_ok sx -> side_ok sy ->
  prefix (s_in sx) (tailw false sy) -> prefix (s_in sy) (tailw true sx) ->
  step (Pk (hsig sy)) sx (final true sx) /\ step (Pk (hsig sx)) sy (final false sy).
Proof.
  induction n as [|n IH]; intros sx sy Hn Okx Oky I1 I2; [lia|].
  destruct (joint_turn sx sy Okx I1 I2) as (cx&cy&AX&AY&HL&HS).
  destruct cx as [sx'|], cy as [sy2|]; cbn [after link less] in AX, AY, HL, HS.
  - destruct AX as [Fx Sx]. destruct AY as [Fy Sy]. destruct HL as [J1 J2].
    destruct (IH sy2 sx') as [K1 K2]; try assumption.
    + lia.
    + unfold side_ok. rewrite (step_hob _ _ _ Sy). exact Oky.
    + unfold side_ok. rewrite (step_hob _ _ _ Sx). exact Okx.
    + rewrite (proj1 Sx) in K1. rewrite (proj1 Sy) in K2. rewrite Fx, Fy.
      split; eapply step_trans; eassumption.
  - destruct AX as [Fx Sx]. rewrite Fx. split; [|exact AY].
    eapply step_trans; [exact Sx|]. eapply step_weaken; [apply Pk_GO|apply quiet_recv, HL].
  - destruct AY as [Fy Sy]. rewrite Fy. split; [exact AX|].
    eapply step_trans; [exact Sy|]. eapply step_weaken; [apply Pk_GO|apply quiet_send, HL].
  - split; assumption.
Qed.


(* ================================================================================== *)
(* 6. From the turn loop to Exchange: the handshake (after PairP.two_party_safety_intact) *)
(* ================================================================================== *)
Lemma init_events cfg i e : In e (s_ev (init_state cfg i)) -> e = EvPrepare.
Proof.
  unfold init_state. destruct (h_present (c_handler cfg)); cbn [ev s_ev]; intros H; [|destruct H].
  destruct H as [H|[]]. symmetry. exact H.
Qed.

Lemma handshake_fail_ev s e s' : handshake s = RFail e s' -> s_ev s' = s_ev s.
Proof.
  unfold handshake, do_send_handshake. cbv zeta. destruct (s_master s).
  - set (s1 := fold_left (fun acc l => wr acc (l ++ [13])) (s_motd s) s).
    assert (K : s_ev s1 = s_ev s) by apply (fold_wr_ev (fun l => l ++ [13])).
    destruct (send_handshake (s_cfg s1) []) as [b|]; [|intros H; injection H as _ <-; exact K].
    match goal with |- context [read_handshake ?f ?s2 ?d] =>
      pose proof (read_handshake_eqo f s2 d) as Hr; destruct (read_handshake f s2 d) as [[d1 s3]|e3 s3|] end;
      cbn [res_eqo] in Hr; try discriminate.
    + destruct (hd_have_sid d1 && negb (beq_bytes (hd_sid d1) [])); [discriminate|].
      intros H. injection H as _ <-. rewrite <- (eqo_ev _ _ Hr). exact K.
    + intros H. injection H as _ <-. rewrite <- (eqo_ev _ _ Hr). exact K.
  - match goal with |- context [read_handshake ?f ?s2 ?d] =>
      pose proof (read_handshake_eqo f s2 d) as Hr; destruct (read_handshake f s2 d) as [[d1 s3]|e3 s3|] end;
      cbn [res_eqo] in Hr; try discriminate.
    + destruct (hd_have_sid d1 && negb (beq_bytes (hd_sid d1) [])).
      * destruct (send_handshake (s_cfg s3) (hd_challenge d1)); [discriminate|].
        intros H. injection H as _ <-. symmetry. apply eqo_ev, Hr.
      * intros H. injection H as _ <-. symmetry. apply eqo_ev, Hr.
    + intros H. injection H as _ <-. symmetry. apply eqo_ev, Hr.
Qed.

(* THE LOG OF A SIDE OF A CUT SESSION.  a has received an initial part of what b wrote, b an initial
   part of what a wrote; whatever the cuts and however the two runs end: every message a handed to
   its handler is the message of an entry of b's outbox, and a recorded "rejected" only for MIDs b's
   policy rejects *)
Theorem cut_events (a b : side_cfg) (in_a in_b : bytes) :
  c_master a = negb (c_master b) ->
  hs_compat (if c_master a then a else b) (if c_master a then b else a) ->
  Forall prop_syn (h_outbox (c_handler a)) -> Forall prop_syn (h_outbox (c_handler b)) ->
  cut_session a b in_a in_b ->
  forall e, In e (x_events (exchange a in_a)) -> Pk (h_outbox (c_handler b), h_policy (c_handler b)) e.
Proof.
  intros Hrole Hhs Sa Sb [HI HP] ev0 He.
  set (P := in_b) in *. set (sgb := (h_outbox (c_handler b), h_policy (c_handler b))).
  assert (Init : forall e0, In e0 (s_ev (init_state a in_a)) -> Pk sgb e0).
  { intros e0 H0. rewrite (init_events _ _ _ H0). exact I. }
  destruct (h_present (c_handler a) && h_prepare_err (c_handler a)) eqn:Pa.
  { unfold exchange in He. cbv zeta in He. fold (init_state a in_a) in He. rewrite Pa in He.
    rewrite finish_events, <- in_rev in He. apply Init, He. }
  pose proof (handshake_nopanic (init_state a in_a)) as Npa.
  destruct (handshake (init_state a in_a)) as [sa0|ea sa0|] eqn:Ha; [| |congruence].
  2:{ destruct (exchange_fail _ _ _ _ Pa Ha) as [_ EA]. rewrite EA, <- in_rev, fin_state_ev in He.
      rewrite (handshake_fail_ev _ _ _ Ha) in He. apply Init, He. }
  destruct (exchange_ok _ _ _ Pa Ha) as [WA EA]. rewrite EA, <- in_rev in He.
  assert (Goal' : step (Pk sgb) sa0 (final (negb (c_master a)) sa0) -> Pk sgb ev0).
  { intros [_ Hs]. destruct (Hs ev0 He) as [K|K]; [rewrite (handshake_ev _ _ Ha) in K; apply Init, K|exact K]. }
  apply Goal'. clear Goal' He EA.
  destruct (s_in sa0) as [|b0 r0] eqn:Ein0.
  { destruct (negb (c_master a)); (eapply step_weaken; [apply Pk_GO|]);
      [apply quiet_send|apply quiet_recv]; rewrite Ein0; apply prefix_nil. }
  assert (Hne : s_in sa0 <> []) by (rewrite Ein0; discriminate). clear Ein0.
  rewrite WA in HP.
  destruct (h_present (c_handler b) && h_prepare_err (c_handler b)) eqn:Pb.
  { (* B's handler failed to prepare: B has sent the error report only *)
    exfalso. assert (W : x_wire (exchange b P) = echo).
    { unfold exchange. cbv zeta. rewrite Pb, finish_wire. cbn [fin_state]. rewrite wire_wr.
      destruct (h_present (c_handler b)); reflexivity. }
    rewrite W in HI. eapply handshake_echo; [|exact Ha]. rewrite (proj1 (init_state_facts a in_a)). exact HI. }
  destruct (init_state_facts a in_a) as (_&_&Hha&Hma&_).
  assert (Oa : side_ok sa0).
  { unfold side_ok, hob. rewrite (handshake_h _ _ Ha), Hha. exact Sa. }
  assert (Fin : forall sb0 (mb : bool), handshake (init_state b P) = ROk sb0 -> mb = negb (c_master b) ->
            side_ok sb0 /\ x_wire (exchange b P) = wire sb0 ++ tailw mb sb0 /\ hsig sb0 = sgb).
  { intros sb0 mb Hb ->. destruct (exchange_ok _ _ _ Pb Hb) as [W E]. split; [|split].
    - unfold side_ok, hob. rewrite (handshake_h _ _ Hb), (proj1 (proj2 (proj2 (init_state_facts b P)))). exact Sb.
    - rewrite W. apply tailw_eq.
    - unfold hsig, sgb. rewrite (handshake_h _ _ Hb), (proj1 (proj2 (proj2 (init_state_facts b P)))). reflexivity. }
  destruct (c_master a) eqn:Ma; cbn [negb] in *.
  - (* A is the master *)
    assert (Mb : c_master b = false) by (destruct (c_master b); [discriminate|reflexivity]).
    destruct Hhs as (M&S&sm&ss&Hm1&Hm2&Hm3&Hs1&Hs2&Hs3).
    (* what A wrote in its handshake *)
    assert (Wsa : wire sa0 = M).
    { pose proof (handshake_master_out (init_state a (S ++ [70])) in_a sm
                    (eq_trans (proj1 (proj2 (proj2 (proj2 (init_state_facts a (S ++ [70])))))) Ma) Hm1) as Ho.
      rewrite init_state_set_in, Ha in Ho. rewrite <- Hm3. apply wire_out, Ho. }
    rewrite tailw_eq, Wsa in HP.
    (* B reads it *)
    assert (Hj : exists j, P = M ++ j).
    { destruct (prefix_comparable P M _ HP (prefix_app_l M _)) as [[j Hj]|Hj]; [|exact Hj].
      rewrite Hj, init_state_ext in Hs1. destruct (hs_back _ _ _ Hs1) as [(s1&_&E)|(s1&Hb&_)].
      - apply (f_equal s_in) in E. cbn [ext set_in s_in] in E. rewrite Hs2 in E. symmetry in E.
        apply app_eq_nil in E. destruct E as [_ ->]. exists []. rewrite Hj, !app_nil_r. reflexivity.
      - exfalso. destruct (exchange_fail _ _ _ _ Pb Hb) as [W _]. cbn [xerr fin_state] in W.
        pose proof (handshake_slave_fail_out _ _ _
                      (eq_trans (proj1 (proj2 (proj2 (proj2 (init_state_facts b P))))) Mb) Hb) as Ho.
        rewrite (proj1 (proj2 (init_state_facts b P))) in Ho. unfold wire in W. rewrite Ho in W. cbn in W.
        rewrite W in HI. apply prefix_of_nil in HI. subst in_a.
        destruct (hs_sfx _ _ Ha) as [x Hx]. rewrite (proj1 (init_state_facts a [])) in Hx.
        symmetry in Hx. apply app_eq_nil in Hx. apply Hne, Hx. }
    destruct Hj as [j Hj].
    assert (Hb : handshake (init_state b P) = ROk (ext j ss)) by (rewrite Hj, init_state_ext; apply hs_forward, Hs1).
    destruct (Fin _ true Hb ltac:(rewrite Mb; reflexivity)) as (Ob&WB&Hsg).
    change (wire (ext j ss)) with (wire ss) in WB. rewrite Hs3 in WB.
    destruct (tailw_send_F (ext j ss)) as [rF HF].
    (* A has read exactly S *)
    assert (Hcons : in_a = S ++ s_in sa0).
    { rewrite WB, HF in HI.
      destruct (prefix_comparable in_a (S ++ [70]) _ HI) as [[j' Hj']|[j' Hj']].
      { exists rF. rewrite <- app_assoc. reflexivity. }
      - rewrite Hj', init_state_ext in Hm1. destruct (hs_back _ _ _ Hm1) as [(s1&E1&E)|(s1&E1&_)]; rewrite Ha in E1; [|discriminate].
        injection E1 as <-. apply (f_equal s_in) in E. cbn [ext set_in s_in] in E. rewrite Hm2 in E.
        apply (app_inv_tail j'). rewrite <- Hj', <- app_assoc, <- E. reflexivity.
      - rewrite Hj', init_state_ext, (hs_forward _ _ _ Hm1) in Ha. injection Ha as <-.
        cbn [ext set_in s_in]. rewrite Hm2, Hj', <- app_assoc. reflexivity. }
    destruct (joint_cut (Datatypes.S (inlen (ext j ss) + inlen sa0)%nat) (ext j ss) sa0) as [_ K]; [lia|exact Ob|exact Oa| | |rewrite Hsg in K; exact K].
    + cbn [ext set_in s_in]. rewrite Hs2. cbn [app]. rewrite Hj in HP. apply prefix_app_inv in HP. exact HP.
    + rewrite WB, Hcons in HI. apply prefix_app_inv in HI. exact HI.
  - (* A is the slave *)
    assert (Mb : c_master b = true) by (destruct (c_master b); [reflexivity|discriminate]).
    destruct Hhs as (M&S&sm&ss&Hm1&Hm2&Hm3&Hs1&Hs2&Hs3).
    (* whatever B does, it has written M first *)
    assert (HX : exists X, x_wire (exchange b P) = M ++ X).
    { pose proof (handshake_master_out (init_state b (S ++ [70])) P sm
                    (eq_trans (proj1 (proj2 (proj2 (proj2 (init_state_facts b (S ++ [70])))))) Mb) Hm1) as Ho.
      rewrite init_state_set_in in Ho. pose proof (handshake_nopanic (init_state b P)) as Np.
      destruct (handshake (init_state b P)) as [sb0|e sB|] eqn:Hb; [| |congruence].
      - destruct (Fin _ false eq_refl ltac:(rewrite Mb; reflexivity)) as (_&W&_). eexists. rewrite W, <- Hm3, (wire_out _ _ Ho). reflexivity.
      - destruct (exchange_fail _ _ _ _ Pb Hb) as [W _]. destruct (grows_wire _ _ (fin_state_grows (xerr e) sB)) as [d Hd].
        exists d. rewrite W, Hd, <- Hm3, (wire_out _ _ Ho). reflexivity. }
    destruct HX as [X HX].
    (* A reads it *)
    assert (Hj : exists j, in_a = M ++ j).
    { rewrite HX in HI. destruct (prefix_comparable in_a M _ HI (prefix_app_l M _)) as [[j Hj]|Hj]; [|exact Hj].
      rewrite Hj, init_state_ext in Hs1. destruct (hs_back _ _ _ Hs1) as [(s1&E1&E)|(s1&E1&_)]; rewrite Ha in E1; [|discriminate].
      apply (f_equal s_in) in E. cbn [ext set_in s_in] in E. rewrite Hs2 in E. symmetry in E.
      apply app_eq_nil in E. destruct E as [_ ->]. exists []. rewrite Hj, !app_nil_r. reflexivity. }
    destruct Hj as [j Hj].
    assert (Esa : sa0 = ext j ss).
    { rewrite Hj, init_state_ext, (hs_forward _ _ _ Hs1) in Ha. injection Ha as <-. reflexivity. }
    assert (Ej : s_in sa0 = j) by (rewrite Esa; cbn [ext set_in s_in]; rewrite Hs2; reflexivity).
    assert (Wsa : wire sa0 = S) by (rewrite Esa; exact Hs3).
    rewrite tailw_eq, Wsa in HP. destruct (tailw_send_F sa0) as [rF HF].
    (* B reads A's greeting *)
    assert (Hb : exists sb0, handshake (init_state b P) = ROk sb0 /\ P = S ++ s_in sb0 /\ wire sb0 = M).
    { rewrite HF in HP.
      destruct (prefix_comparable P (S ++ [70]) _ HP) as [[j2 Hj2]|[j2 Hj2]].
      { exists rF. rewrite <- app_assoc. reflexivity. }
      - rewrite Hj2, init_state_ext in Hm1. destruct (hs_back _ _ _ Hm1) as [(s1&E1&E)|(s1&E1&L)].
        + exists s1. split; [exact E1|]. split.
          * apply (f_equal s_in) in E. cbn [ext set_in s_in] in E. rewrite Hm2 in E.
            apply (app_inv_tail j2). rewrite <- Hj2, <- app_assoc, <- E. reflexivity.
          * rewrite <- Hm3, E. reflexivity.
        + exfalso. destruct (exchange_fail _ _ _ _ Pb E1) as [W _]. cbn [xerr fin_state] in W.
          destruct L as (L&_). destruct (pre_wire _ _ L) as [d Hd]. rewrite Hm3 in Hd.
          rewrite W, Hj, Hd in HI. apply prefix_length in HI. rewrite !app_length in HI.
          apply Hne. rewrite Ej. destruct j; [reflexivity|cbn [length] in HI; lia].
      - exists (ext j2 sm). split; [rewrite Hj2, init_state_ext; apply hs_forward, Hm1|].
        split; [cbn [ext set_in s_in]; rewrite Hm2, Hj2, <- app_assoc; reflexivity|exact Hm3]. }
    destruct Hb as (sb0&Hb&HPb&Wsb).
    destruct (Fin _ false Hb ltac:(rewrite Mb; reflexivity)) as (Ob&WB&Hsg).
    destruct (joint_cut (Datatypes.S (inlen sa0 + inlen sb0)%nat) sa0 sb0) as [K _]; [lia|exact Oa|exact Ob| | |rewrite Hsg in K; exact K].
    + rewrite WB, Wsb, Hj in HI. apply prefix_app_inv in HI. rewrite Ej. exact HI.
    + rewrite HPb in HP. apply prefix_app_inv in HP. exact HP.
Qed.

(* ================================================================================== *)
(* 7. The two facts about the cut session, and CONVERGENCE with "delivered"             *)
(* ================================================================================== *)
Lemma roles_swap (x y : side_cfg) :
  c_master x = negb (c_master y) ->
  hs_compat (if c_master x then x else y) (if c_master x then y else x) ->
  c_master y = negb (c_master x) /\ hs_compat (if c_master y then y else x) (if c_master y then x else y).
Proof.
  intros Hrole Hhs. split; [rewrite Hrole; destruct (c_master y); reflexivity|].
  rewrite Hrole in Hhs. destruct (c_master y); exact Hhs.
Qed.

(* (G1) what y stores under the MID of an entry of x's outbox is that entry's message *)
Theorem stored_is_own (x y : side_cfg) (in_x in_y : bytes) :
  c_master x = negb (c_master y) ->
  hs_compat (if c_master x then x else y) (if c_master x then y else x) ->
  Forall prop_syn (h_outbox (c_handler x)) -> Forall prop_syn (h_outbox (c_handler y)) ->
  Forall prop_wf (h_outbox (c_handler x)) -> NoDup (map o_mid (h_outbox (c_handler x))) ->
  cut_session x y in_x in_y ->
  forall p d ok, In p (h_outbox (c_handler x)) ->
    In (EvProcess (o_mid p) d ok) (x_events (exchange y in_y)) -> d = pm_data p.
Proof.
  intros Hrole Hhs Sx Sy Wx Nx Hcut p d ok Hp He.
  destruct (roles_swap x y Hrole Hhs) as [Hrole' Hhs'].
  pose proof (cut_events y x in_y in_x Hrole' Hhs' Sy Sx (cut_session_sym _ _ _ _ Hcut) _ He) as K.
  cbn [Pk fst] in K. destruct K as (q&Hq&Hm).
  pose proof (proj1 (Forall_forall _ _) Wx q Hq) as Wq. unfold prop_wf in Wq. rewrite Wq in Hm.
  injection Hm as Hmid <-.
  assert (q = p) by (eapply NoDup_map_inj; eassumption). subst q. reflexivity.
Qed.

(* (G2) a rejection recorded by x was answered by y's policy *)
Theorem rejected_by_policy (x y : side_cfg) (in_x in_y : bytes) :
  c_master x = negb (c_master y) ->
  hs_compat (if c_master x then x else y) (if c_master x then y else x) ->
  Forall prop_syn (h_outbox (c_handler x)) -> Forall prop_syn (h_outbox (c_handler y)) ->
  cut_session x y in_x in_y ->
  forall m, In (EvSetSent m true) (x_events (exchange x in_x)) -> policy_of (c_handler y) m = AReject.
Proof.
  intros Hrole Hhs Sx Sy Hcut m He.
  pose proof (cut_events x y in_x in_y Hrole Hhs Sx Sy Hcut _ He) as K. cbn [Pk snd] in K.
  rewrite policy_of_go. exact K.
Qed.

(* ConvergeP.genuine_session holds for every cut session of two library sides *)
Theorem genuine_cut_session (x y : side_cfg) (in_x in_y : bytes) :
  c_master x = negb (c_master y) ->
  hs_compat (if c_master x then x else y) (if c_master x then y else x) ->
  Forall prop_syn (h_outbox (c_handler x)) -> Forall prop_syn (h_outbox (c_handler y)) ->
  Forall prop_wf (h_outbox (c_handler x)) -> NoDup (map o_mid (h_outbox (c_handler x))) ->
  cut_session x y in_x in_y ->
  forall p, In p (h_outbox (c_handler x)) -> genuine_session y (exchange x in_x) (exchange y in_y) p.
Proof.
  intros Hrole Hhs Sx Sy Wx Nx Hcut p Hp. split.
  - intros d Hd. eapply stored_is_own; eassumption.
  - intros Hr. eapply rejected_by_policy; eassumption.
Qed.

(* CONVERGENCE, DELIVERED: after a session cut anywhere in either direction (or stopped by a storage
   error) and one complete session of the mailboxes it leaves, the peer's handler has been given the
   own message of every entry its policy accepts *)
Theorem convergence_delivered (x y : side_cfg) (in_x in_y in_x' in_y' : bytes) :
  c_master x = negb (c_master y) ->
  hs_compat (if c_master x then x else y) (if c_master x then y else x) ->
  side_sound x -> side_sound y ->
  cut_session x y in_x in_y ->
  let ox := exchange x in_x in let oy := exchange y in_y in
  let x' := next_cfg x ox in let y' := next_cfg y oy in
  closed x' y' in_x' in_y' ->
  let ox' := exchange x' in_x' in let oy' := exchange y' in_y' in
  (forall p, In p (h_outbox (c_handler x)) -> policy_of (c_handler y) (o_mid p) = AAccept ->
     In (EvProcess (o_mid p) (pm_data p) true) (x_events oy ++ x_events oy')) /\
  (forall p, In p (h_outbox (c_handler y)) -> policy_of (c_handler x) (o_mid p) = AAccept ->
     In (EvProcess (o_mid p) (pm_data p) true) (x_events ox ++ x_events ox')).
Proof.
  intros Hrole Hhs Sx Sy Hcut ox oy x' y' Hc ox' oy'.
  destruct (convergence_sym x y in_x in_y in_x' in_y' Hrole Hhs Sx Sy Hcut Hc) as (_&_&C1&C2).
  destruct (roles_swap x y Hrole Hhs) as [Hrole' Hhs'].
  split; intros p Hp Ha.
  - apply (conv_delivered x y ox oy ox' oy' p (C1 p Hp)); [|exact Ha].
    apply genuine_cut_session; try assumption; [apply side_sound_syn, Sx|apply side_sound_syn, Sy|apply Sx|apply Sx].
  - apply (conv_delivered y x oy ox oy' ox' p (C2 p Hp)); [|exact Ha].
    apply genuine_cut_session; try assumption;
      [apply side_sound_syn, Sy|apply side_sound_syn, Sx|apply Sy|apply Sy|apply cut_session_sym, Hcut].
Qed.

(* in the hypothesis shape of PairP.two_party_safety *)
Theorem convergence_delivered_cut (a b : side_cfg) (in_a : bytes) (k : nat) (in_a' in_b' : bytes) :
  c_master a = negb (c_master b) ->
  hs_compat (if c_master a then a else b) (if c_master a then b else a) ->
  side_sound a -> side_sound b ->
  let oa := exchange a in_a in let ob := exchange b (firstn k (x_wire oa)) in
  in_a = firstn (length in_a) (x_wire ob) ->
  let a' := next_cfg a oa in let b' := next_cfg b ob in
  closed a' b' in_a' in_b' ->
  let oa' := exchange a' in_a' in let ob' := exchange b' in_b' in
  (forall p, In p (h_outbox (c_handler a)) -> policy_of (c_handler b) (o_mid p) = AAccept ->
     In (EvProcess (o_mid p) (pm_data p) true) (x_events ob ++ x_events ob')) /\
  (forall p, In p (h_outbox (c_handler b)) -> policy_of (c_handler a) (o_mid p) = AAccept ->
     In (EvProcess (o_mid p) (pm_data p) true) (x_events oa ++ x_events oa')).
Proof.
  intros Hrole Hhs Sa Sb oa ob Hin a' b' Hc.
  exact (convergence_delivered a b in_a (firstn k (x_wire oa)) in_a' in_b' Hrole Hhs Sa Sb
           (safety_shape_cut_session a b in_a k Hin) Hc).
Qed.

(* an instance: DeliverP.dx_a / dx_b (ConvergeP.dx_hypotheses), every received string, every cut *)
Example convergence_delivered_dx (in_a : bytes) (k : nat) (in_a' in_b' : bytes) :
  let oa := exchange dx_a in_a in let ob := exchange dx_b (firstn k (x_wire oa)) in
  in_a = firstn (length in_a) (x_wire ob) ->
  let a' := next_cfg dx_a oa in let b' := next_cfg dx_b ob in
  closed a' b' in_a' in_b' ->
  let oa' := exchange a' in_a' in let ob' := exchange b' in_b' in
  (forall p, In p (h_outbox (c_handler dx_a)) -> policy_of (c_handler dx_b) (o_mid p) = AAccept ->
     In (EvProcess (o_mid p) (pm_data p) true) (x_events ob ++ x_events ob')) /\
  (forall p, In p (h_outbox (c_handler dx_b)) -> policy_of (c_handler dx_a) (o_mid p) = AAccept ->
     In (EvProcess (o_mid p) (pm_data p) true) (x_events oa ++ x_events oa')).
Proof.
  destruct dx_hypotheses as (H1&H2&H3&H4).
  apply convergence_delivered_cut; [exact H1|apply hs_check_sound; exact H2|apply sound_check_sound; exact H3|apply sound_check_sound; exact H4].
Qed.

Print Assumptions joint_turn.
Print Assumptions joint_cut.
Print Assumptions cut_events.
Print Assumptions stored_is_own.
Print Assumptions rejected_by_policy.
Print Assumptions genuine_cut_session.
Print Assumptions convergence_delivered.
Print Assumptions convergence_delivered_cut.
Print Assumptions convergence_delivered_dx.

(* NOT DONE
   - "Exactly once over both sessions": that the cut session itself contains at most one EvSetSent
     per MID in the owner's log and at most one successful EvProcess per MID in the peer's.  `step`
     speaks about the SET of events, not their number; counting needs the analogous lemmas with the
     log as a list (one-sided for EvSetSent: a reported MID is in h_gone and is not proposed again;
     joint for EvProcess: the sender transfers an entry at most once).  ConvergeP.conv_reported /
     conv_not_duplicated give exactly-once for the second session and none there for what the first
     session did.
   - That the peer stores nothing under a MID its policy rejects or defers (cut_events says where
     a stored message comes from, not that it was accepted). *)
