(* B2F/TermP.v — the model of Session.Exchange never runs out of fuel: the turn loop ends for
   every configuration and every received byte sequence (each inbound turn consumes at least
   one line of the input, no step ever lengthens what is left to read). *)
From Coq Require Import List NArith ZArith Bool Lia.
From Verif Require Import Base.Bytes Base.BytesP gen.Tables Msg.Message B2F.Secure B2F.Side.
Import ListNotations.
Open Scope N_scope.

Definition inlen (s : sess) : nat := length (s_in s).

(* ---------- input never grows ---------- *)
Lemma split_at_rest_shorter c : forall s a r, split_at c s = (a, Some r) -> (length r < length s)%nat.
Proof.
  induction s as [|x s IH]; intros a r H; cbn [split_at] in H; [discriminate|].
  destruct (x =? c).
  - inversion H; subst. cbn [length]. lia.
  - destruct (split_at c s) as [a' [r'|]] eqn:E; inversion H; subst.
    specialize (IH _ _ eq_refl). cbn [length]. lia.
Qed.

Lemma read_until_shorter c inp a r : read_until c inp = Some (a, r) -> (length r < length inp)%nat.
Proof.
  unfold read_until. destruct (split_at c inp) as [a' [r'|]] eqn:E; intros H; inversion H; subst.
  eapply split_at_rest_shorter. exact E.
Qed.

Lemma next_line_ok pe s line s' : next_line pe s = ROk (line, s') -> (inlen s' < inlen s)%nat.
Proof.
  unfold next_line. destruct (read_until 13 (s_in s)) as [[raw rest]|] eqn:E; [|discriminate].
  destruct (pe && err_line (clean_string raw)); intros H; inversion H; subst.
  unfold inlen. cbn [set_in s_in]. eapply read_until_shorter. exact E.
Qed.

Lemma next_line_fail pe s e s' : next_line pe s = RFail e s' -> (inlen s' <= inlen s)%nat.
Proof.
  unfold next_line. destruct (read_until 13 (s_in s)) as [[raw rest]|] eqn:E.
  - destruct (pe && err_line (clean_string raw)); intros H; inversion H; subst.
    unfold inlen. cbn [set_in s_in]. apply read_until_shorter in E. lia.
  - intros H; inversion H; subst. unfold inlen. cbn [set_in s_in length]. lia.
Qed.

Lemma wr_inlen s b : inlen (wr s b) = inlen s. Proof. reflexivity. Qed.
Lemma ev_inlen s e : inlen (ev s e) = inlen s. Proof. reflexivity. Qed.
Lemma mark_gone_inlen s m : inlen (mark_gone s m) = inlen s. Proof. reflexivity. Qed.
Lemma add_sent_inlen s m : inlen (add_sent s m) = inlen s. Proof. reflexivity. Qed.
Lemma add_recv_inlen s m : inlen (add_recv s m) = inlen s. Proof. reflexivity. Qed.
Lemma set_nomsgs_inlen s b : inlen (set_nomsgs s b) = inlen s. Proof. reflexivity. Qed.

Lemma fold_wr_inlen {A} (f : A -> bytes) l : forall s, inlen (fold_left (fun acc x => wr acc (f x)) l s) = inlen s.
Proof. induction l as [|x r IH]; intros s; cbn [fold_left]; [reflexivity|]. rewrite IH. reflexivity. Qed.

(* ---------- outbound turn ---------- *)
Lemma write_compressed_inlen s p off s' : write_compressed s p off = ROk s' -> inlen s' = inlen s.
Proof.
  unfold write_compressed. destruct ((off <? 0)%Z || (Z.of_nat (length (o_cdata p)) <? off)%Z); [discriminate|].
  cbv zeta. destruct (Z.of_nat (length (o_cdata p)) <? 6)%Z; [discriminate|].
  intros H; inversion H; subst. reflexivity.
Qed.

Lemma send_accepted_inlen : forall props s ans sent s' sent',
  send_accepted s props ans sent = ROk (s', sent') -> inlen s' = inlen s.
Proof.
  induction props as [|p ps IH]; intros s ans sent s' sent' H; cbn [send_accepted] in H.
  - inversion H; subst. reflexivity.
  - destruct ans as [|a r]; cbn zeta iota beta in H.
    + apply IH in H. exact H.
    + destruct a as [|[ | | ] off].
      * apply IH in H. exact H.
      * destruct (write_compressed s p off) as [s1| |] eqn:E; try discriminate.
        apply IH in H. rewrite H. apply (write_compressed_inlen _ _ _ _ E).
      * apply IH in H. exact H.
      * apply IH in H. rewrite H. reflexivity.
Qed.

Lemma read_reply_ok : forall fuel s line s', read_reply fuel s = ROk (line, s') -> (inlen s' < inlen s)%nat.
Proof.
  induction fuel as [|f IH]; intros s line s' H; cbn [read_reply] in H; [discriminate|].
  destruct (next_line true s) as [[l s1]|e s1|] eqn:E; try discriminate.
  apply next_line_ok in E.
  destruct (prefixb [70; 83; 32] l); [inversion H; subst; exact E|].
  destruct (prefixb [59] l); [|discriminate]. apply IH in H. lia.
Qed.

Lemma fold_sent_inlen (f : sess -> bytes * bool -> sess) (Hf : forall a x, inlen (f a x) = inlen a) l :
  forall s, inlen (fold_left f l s) = inlen s.
Proof. induction l as [|x r IH]; intros s; cbn [fold_left]; [reflexivity|]. rewrite IH. apply Hf. Qed.

Lemma handle_outbound_inlen s q s' : handle_outbound s = ROk (q, s') -> (inlen s' <= inlen s)%nat.
Proof.
  unfold handle_outbound. destruct (outbound s) as [props s0] eqn:Eo.
  assert (H0 : inlen s0 = inlen s).
  { unfold outbound in Eo. destruct (h_present (s_h s)); inversion Eo; subst; reflexivity. }
  destruct props as [|p0 pr].
  - intros H; inversion H; subst. rewrite wr_inlen. lia.
  - cbv zeta.
    set (block := firstn (N.to_nat MaxBlockSize) (p0 :: pr)).
    set (lines := map proposal_line block).
    set (s1 := fold_left (fun acc l => wr acc (l ++ [13])) lines s0).
    set (s2 := wr s1 _).
    assert (H2 : inlen s2 = inlen s).
    { unfold s2. rewrite wr_inlen. unfold s1. rewrite (fold_wr_inlen (fun l => l ++ [13])). exact H0. }
    destruct (read_reply (S (length (s_in s2))) s2) as [[reply s3]|e s3|] eqn:Er; try discriminate.
    apply read_reply_ok in Er.
    destruct (slice_from 3 reply) as [astr|]; [|discriminate].
    destruct (parse_answers (S (length astr)) astr (length block) []) as [ans|]; [|discriminate].
    destruct (send_accepted s3 block ans []) as [[s4 sent_rev]|e s4|] eqn:Es; try discriminate.
    apply send_accepted_inlen in Es.
    set (sent := rev' sent_rev).
    set (s5 := fold_left _ sent s4).
    assert (H5 : inlen s5 = inlen s4).
    { unfold s5. apply fold_sent_inlen. intros a x. destruct (snd x); reflexivity. }
    destruct (s_in s5) as [|b rest] eqn:Ein; [discriminate|].
    destruct (negb ((b =? 70) || (b =? 59))).
    + destruct (next_line true s5) as [[l sx]| |]; discriminate.
    + intros H; inversion H; subst. rewrite ev_inlen.
      rewrite (fold_sent_inlen (fun acc mr => if snd mr then acc else add_sent (ev (mark_gone acc (fst mr)) (EvSetSent (fst mr) false)) (fst mr))).
      * lia.
      * intros a x. destruct (snd x); reflexivity.
Qed.

(* ---------- inbound turn ---------- *)
Lemma answer_props_inlen : forall props s seen acc, inlen (fst (answer_props s props seen acc)) = inlen s.
Proof.
  induction props as [|p r IH]; intros s seen acc; cbn [answer_props]; [reflexivity|].
  destruct (mem_bytes (i_mid p) seen || negb ((i_code p =? Wl2kProposal) || (i_code p =? GzipProposal)) || negb (h_present (s_h s))).
  - apply IH.
  - rewrite IH. reflexivity.
Qed.

Lemma inbound_loop_ok : forall fuel s props lines q props' s',
  inbound_loop fuel s props lines = ROk (q, props', s') -> (inlen s' < inlen s)%nat.
Proof.
  induction fuel as [|f IH]; intros s props lines q props' s' H; cbn [inbound_loop] in H; [discriminate|].
  destruct (next_line true s) as [[line s1]|e s1|] eqn:E; try discriminate.
  apply next_line_ok in E.
  destruct (prefixb str_PM line); [apply IH in H; lia|].
  destruct line as [|c0 rest0]; [apply IH in H; lia|].
  destruct (N.eq_dec c0 59) as [E59|N59].
  { subst c0. apply IH in H. lia. }
  assert (Hc : forall (A : Type) (x y : A), match c0 with 59 => x | _ => y end = y).
  { intros A x y. destruct c0 as [|p]; [reflexivity|].
    destruct p as [p|p|]; try reflexivity; destruct p as [p|p|]; try reflexivity;
    destruct p as [p|p|]; try reflexivity; destruct p as [p|p|]; try reflexivity;
    destruct p as [p|p|]; try reflexivity; destruct p as [p|p|]; try reflexivity. congruence. }
  revert H. 
  replace (match c0 :: rest0 with
           | [] => inbound_loop f s1 props lines
           | 59 :: _ => inbound_loop f s1 props lines
           | _ :: _ => _ end) with
          (if (length (c0 :: rest0) <? 2)%nat || negb (c0 =? 70) then RFail EOther s1
           else match rest0 with
                | [] => RPanic
                | c1 :: _ =>
                    if in_list c1 [65; 66; 67; 68] then
                      match parse_proposal s1 (c0 :: rest0) with
                      | ROk p => inbound_loop f s1 (p :: props) ((c0 :: rest0) :: lines)
                      | RFail e s' => RFail e s'
                      | RPanic => RPanic
                      end
                    else if c1 =? 70 then ROk (false, [], set_nomsgs s1 true)
                    else if c1 =? 81 then ROk (true, [], s1)
                    else if c1 =? 62 then
                      match slice_from 2 (c0 :: rest0) with
                      | None => RPanic
                      | Some ck =>
                          let ours := Z.of_N (block_checksum (rev' lines)) in
                          let theirs := parse_hex_ignore_err (trim_space ck) in
                          if negb (ours =? theirs)%Z then RFail EOther s1
                          else
                            match props with
                            | [] => ROk (false, [], set_nomsgs s1 true)
                            | _ =>
                                let '(s2, answered) := answer_props (set_nomsgs s1 false) (rev' props) [] [] in
                                let s3 := wr s2 ([70; 83; 32] ++ map (fun p => answer_byte (i_answer p)) answered ++ [13]) in
                                ROk (false, answered, s3)
                            end
                      end
                    else RFail EOther s1
                end).
  2:{ symmetry. apply Hc. }
  destruct ((length (c0 :: rest0) <? 2)%nat || negb (c0 =? 70)); [discriminate|].
  destruct rest0 as [|c1 rest1]; [discriminate|].
  destruct (in_list c1 [65; 66; 67; 68]).
  - destruct (parse_proposal s1 (c0 :: c1 :: rest1)) as [p|e sx|]; try discriminate.
    intros H. apply IH in H. lia.
  - destruct (c1 =? 70); [intros H; inversion H; subst; rewrite set_nomsgs_inlen; exact E|].
    destruct (c1 =? 81); [intros H; inversion H; subst; exact E|].
    destruct (c1 =? 62); [|discriminate].
    destruct (slice_from 2 (c0 :: c1 :: rest1)) as [ck|]; [|discriminate]. cbv zeta.
    destruct (negb (Z.of_N (block_checksum (rev' lines)) =? parse_hex_ignore_err (trim_space ck))%Z); [discriminate|].
    destruct props as [|p0 pr].
    + intros H; inversion H; subst. rewrite set_nomsgs_inlen. exact E.
    + pose proof (answer_props_inlen (rev' (p0 :: pr)) (set_nomsgs s1 false) [] []) as Ha.
      destruct (answer_props (set_nomsgs s1 false) (rev' (p0 :: pr)) [] []) as [s2 answered].
      cbn [fst] in Ha. intros H; inversion H; subst. rewrite wr_inlen, Ha, set_nomsgs_inlen. exact E.
Qed.

Lemma take_n_rest : forall n inp acc sum acc' rest sum',
  take_n n inp acc sum = Some (acc', rest, sum') -> (length rest <= length inp)%nat.
Proof.
  induction n as [|k IH]; intros inp acc sum acc' rest sum' H; cbn [take_n] in H.
  - inversion H; subst. lia.
  - destruct inp as [|x r]; [discriminate|]. apply IH in H. cbn [length]. lia.
Qed.

Lemma read_frames_rest : forall fuel inp buf sum csize,
  match read_frames fuel inp buf sum csize with
  | FOk _ rest => (length rest <= length inp)%nat
  | FErr _ rest => (length rest <= length inp)%nat
  end.
Proof.
  induction fuel as [|f IH]; intros inp buf sum csize; cbn [read_frames]; [lia|].
  destruct inp as [|c r]; [cbn; lia|].
  destruct (c =? CHRSTX).
  - destruct r as [|l r1].
    + destruct (take_n 256 [] buf sum) as [[[b' r2] s']|] eqn:E; [|cbn; lia].
      apply take_n_rest in E. specialize (IH r2 b' s' csize).
      destruct (read_frames f r2 b' s' csize); cbn [length] in *; lia.
    + destruct (take_n (if l =? 0 then 256%nat else N.to_nat l) r1 buf sum) as [[[b' r2] s']|] eqn:E; [|cbn; lia].
      apply take_n_rest in E. specialize (IH r2 b' s' csize).
      destruct (read_frames f r2 b' s' csize); cbn [length] in *; lia.
  - destruct (c =? CHREOT).
    + destruct r as [|k r1].
      * destruct (negb ((sum + 0) mod 256 =? 0)); [cbn; lia|]. destruct (negb (csize =? Z.of_nat (length buf))%Z); cbn; lia.
      * destruct (negb ((sum + k) mod 256 =? 0)); [cbn [length]; lia|].
        destruct (negb (csize =? Z.of_nat (length buf))%Z); cbn [length]; lia.
    + cbn [length]. lia.
Qed.

Lemma read_compressed_inlen s p :
  match read_compressed s p with
  | ROk (_, s') => (inlen s' <= inlen s)%nat
  | RFail _ s' => (inlen s' <= inlen s)%nat
  | RPanic => True
  end.
Proof.
  unfold read_compressed, inlen. destruct (s_in s) as [|c r] eqn:Ein; [rewrite Ein; cbn; lia|].
  destruct (c =? CHRSOH).
  - destruct r as [|hl r1]; [cbn [set_in s_in length]; lia|].
    destruct (read_until CHRNUL r1) as [[title r2]|] eqn:E1; [|cbn [set_in s_in length]; lia].
    destruct (read_until CHRNUL r2) as [[offs r3]|] eqn:E2; [|cbn [set_in s_in length]; lia].
    apply read_until_shorter in E1. apply read_until_shorter in E2.
    assert (H3 : (length r3 <= length (c :: hl :: r1))%nat) by (cbn [length]; lia).
    destruct (negb (N.to_nat hl =? length title + length offs + 2)%nat); [cbn [set_in s_in]; exact H3|].
    set (digits := match offs with 45 :: d => d | 43 :: d => d | _ => offs end).
    destruct digits as [|d0 dr]; [cbn [set_in s_in]; exact H3|].
    destruct (num_of_digits (d0 :: dr) 0) as [v|]; [|cbn [set_in s_in]; exact H3].
    destruct (9223372036854775807 <? v); [cbn [set_in s_in]; exact H3|].
    destruct (negb (v =? 0)); [cbn [set_in s_in]; exact H3|].
    pose proof (read_frames_rest (S (length r3)) r3 [] 0 (i_csize p)) as Hr.
    destruct (read_frames (S (length r3)) r3 [] 0 (i_csize p)); cbn [set_in s_in]; lia.
  - destruct (c =? 42).
    + destruct (next_line true (set_in s r)) as [[l sx]|e sx|] eqn:E; [| |exact I].
      * apply next_line_ok in E. unfold inlen in E. cbn [set_in s_in length] in *. lia.
      * apply next_line_fail in E. unfold inlen in E. cbn [set_in s_in length] in *. lia.
    + cbn [set_in s_in length]. lia.
Qed.

Lemma receive_accepted_inlen : forall (props : list iprop) (s : sess),
  match receive_accepted s props with
  | RcOk s' => (inlen s' <= inlen s)%nat
  | RcErr _ s' => (inlen s' <= inlen s)%nat
  | RcPanic => True
  | RcUnknown => True
  end.
Proof.
  induction props as [|p r IH]; intros s; cbn [receive_accepted]; [lia|].
  destruct (i_answer p); try apply IH.
  pose proof (read_compressed_inlen s p) as Hr.
  destruct (read_compressed s p) as [[cdata s1]|e s1|]; [|exact Hr|exact I].
  destruct (proposal_message cdata) as [mid data|e|]; [|exact Hr|exact I].
  destruct (mem_bytes mid (h_fail (s_h s1))).
  - rewrite ev_inlen. exact Hr.
  - specialize (IH (add_recv (ev s1 (EvProcess mid data (negb false))) (i_mid p))).
    rewrite add_recv_inlen, ev_inlen in IH.
    destruct (receive_accepted (add_recv (ev s1 (EvProcess mid data (negb false))) (i_mid p)) r); try exact I; lia.
Qed.

(* ---------- the turn loop ends ---------- *)
Theorem turns_terminate : forall (fuel : nat) (my_turn : bool) (s : sess),
  (2 * inlen s + (if my_turn then 2 else 1) <= fuel)%nat -> fst (turns fuel my_turn s) <> XOutOfFuel.
Proof.
  induction fuel as [|f IH]; intros my_turn s Hf.
  - destruct my_turn; lia.
  - cbn [turns]. destruct my_turn.
    + destruct (handle_outbound s) as [[quit s1]|e s1|] eqn:E.
      * apply handle_outbound_inlen in E. destruct quit; [cbn; discriminate|].
        apply IH. lia.
      * destruct e; cbn; discriminate.
      * cbn; discriminate.
    + destruct (inbound_loop (S (length (s_in s))) s [] []) as [[[quit props] s1]|e s1|] eqn:E.
      * apply inbound_loop_ok in E.
        pose proof (receive_accepted_inlen props s1) as Hr.
        destruct (receive_accepted s1 props) as [s2|e s2| |]; try (cbn; discriminate).
        -- destruct quit; [cbn; discriminate|]. apply IH. lia.
        -- destruct e; cbn; discriminate.
      * destruct e; cbn; discriminate.
      * cbn; discriminate.
Qed.

(* ---------- the handshake does not lengthen the input either ---------- *)
Lemma read_handshake_inlen : forall fuel s d,
  match read_handshake fuel s d with
  | ROk (_, s') => (inlen s' <= inlen s)%nat
  | RFail _ s' => (inlen s' <= inlen s)%nat
  | RPanic => True
  end.
Proof.
  induction fuel as [|f IH]; intros s d; cbn [read_handshake]; [lia|].
  destruct (s_in s) as [|b r] eqn:Ein; [lia|].
  destruct ((b =? 70) && s_master s); [lia|].
  destruct (next_line false s) as [[line s1]|e s1|] eqn:E; [| |exact I].
  2:{ apply next_line_fail in E. exact E. }
  apply next_line_ok in E.
  assert (Hrec : forall d', match read_handshake f s1 d' with
                            | ROk (_, s') => (inlen s' <= inlen s)%nat
                            | RFail _ s' => (inlen s' <= inlen s)%nat
                            | RPanic => True end).
  { intros d'. specialize (IH s1 d'). destruct (read_handshake f s1 d') as [[? ?]|? ?|]; try exact I; lia. }
  destruct (prefixb [91] line && suffixb [93] line).
  - destruct (parse_sid line) as [sid|]; [|lia].
    destruct (containsb sFBComp2 sid); [apply Hrec|lia].
  - destruct (prefixb str_FWp line).
    + destruct (prefixb str_FWfull line); [apply Hrec|lia].
    + destruct (prefixb str_PQ line).
      * destruct (length line <? 5)%nat; [lia|]. destruct (slice_from 5 line); [apply Hrec|exact I].
      * destruct (suffixb [62] line); [lia|apply Hrec].
Qed.

Lemma handshake_inlen s : match handshake s with
                          | ROk s' => (inlen s' <= inlen s)%nat
                          | _ => True end.
Proof.
  unfold handshake. cbv zeta. destruct (s_master s).
  - set (s1 := fold_left (fun acc l => wr acc (l ++ [13])) (s_motd s) s).
    assert (H1 : inlen s1 = inlen s) by (unfold s1; apply (fold_wr_inlen (fun l => l ++ [13]))).
    unfold do_send_handshake. destruct (send_handshake (s_cfg s1) []) as [b|]; [|exact I].
    pose proof (read_handshake_inlen (S (length (s_in s))) (wr s1 b)
                  {| hd_sid := []; hd_have_sid := false; hd_challenge := [] |}) as Hr.
    destruct (read_handshake _ (wr s1 b) _) as [[d s3]|e s3|]; try exact I.
    destruct (hd_have_sid d && negb (beq_bytes (hd_sid d) [])); [|exact I].
    rewrite wr_inlen in Hr. lia.
  - pose proof (read_handshake_inlen (S (length (s_in s))) s
                  {| hd_sid := []; hd_have_sid := false; hd_challenge := [] |}) as Hr.
    destruct (read_handshake _ s _) as [[d s1]|e s1|]; try exact I.
    destruct (hd_have_sid d && negb (beq_bytes (hd_sid d) [])); [|exact I].
    unfold do_send_handshake. destruct (send_handshake (s_cfg s1) (hd_challenge d)); [|exact I].
    rewrite wr_inlen. exact Hr.
Qed.

(* ---------- Exchange never runs out of fuel ---------- *)
Theorem exchange_terminates cfg input : x_res (exchange cfg input) <> XOutOfFuel.
Proof.
  unfold exchange. cbv zeta.
  set (s0 := {| s_in := input; s_out := []; s_ev := []; s_h := c_handler cfg; s_master := c_master cfg;
                s_remote_nomsgs := false; s_sent := []; s_recv := []; s_cfg := c_hs cfg; s_motd := c_motd cfg |}).
  set (s1 := if h_present (c_handler cfg) then ev s0 EvPrepare else s0).
  assert (H1 : inlen s1 = length input) by (unfold s1; destruct (h_present (c_handler cfg)); reflexivity).
  destruct (h_present (c_handler cfg) && h_prepare_err (c_handler cfg)); [cbn; discriminate|].
  pose proof (handshake_inlen s1) as Hh.
  destruct (handshake s1) as [s2|e s2|].
  - set (fuel := (2 * length input + length (h_outbox (c_handler cfg)) + 8)%nat).
    pose proof (turns_terminate fuel (negb (c_master cfg)) s2) as Ht.
    destruct (turns fuel (negb (c_master cfg)) s2) as [r s3]. cbn [fst] in Ht.
    unfold finish. cbn [x_res]. apply Ht. unfold fuel. destruct (negb (c_master cfg)); lia.
  - destruct e; cbn; discriminate.
  - cbn; discriminate.
Qed.
