(* B2F/SideP.v — proofs about B2F/Side.v:
   * no byte sequence from the remote makes the model side reach RPanic (every index/slice of
     the Go code on remote data is guarded);
   * a message is handed to the inbound handler only after its framed transfer passed the
     block checksum and the declared length, and its payload passed the LZHUF reader with a
     successful Close (CRC-16 and size) and parsed as a message;
   * the frame codec (STX blocks of 1..125 bytes, EOT + checksum) round-trips for every payload. *)
From Coq Require Import Lia ZifyN ZifyNat ZifyBool.
From Verif Require Import Base.Bytes Base.Utf8 Base.Arr B2F.Md5 B2F.Secure Lzhuf.Huff Lzhuf.Enc Lzhuf.Crc
  Lzhuf.Dec Lzhuf.DecP Msg.Message B2F.Side gen.Tables.
Open Scope N_scope.

(* ================= no panic ================= *)
Lemma slice_from_some n s : (n <= length s)%nat -> exists r, slice_from n s = Some r.
Proof.
  intros H. unfold slice_from. destruct (n <=? length s)%nat eqn:E; [eauto|].
  apply Nat.leb_gt in E. lia.
Qed.

Lemma prefixb_length p s : prefixb p s = true -> (length p <= length s)%nat.
Proof.
  revert s. induction p as [|x p IH]; intros s H; [cbn; lia|].
  destruct s as [|y s]; [discriminate|]. cbn in H. apply andb_true_iff in H. destruct H as [_ H].
  apply IH in H. cbn. lia.
Qed.

Lemma next_line_nopanic pe s : next_line pe s <> RPanic.
Proof.
  unfold next_line. destruct (read_until 13 (s_in s)) as [[raw rest]|]; [|discriminate].
  destruct (pe && err_line (clean_string raw)); discriminate.
Qed.

Lemma read_handshake_nopanic fuel : forall s d, read_handshake fuel s d <> RPanic.
Proof.
  induction fuel as [|f IH]; intros s d; [discriminate|].
  cbn [read_handshake]. destruct (s_in s) as [|b r]; [discriminate|].
  destruct ((b =? 70) && s_master s); [discriminate|].
  pose proof (next_line_nopanic false s) as Hn.
  destruct (next_line false s) as [[line s1]|e s'|]; [|discriminate|congruence].
  destruct (prefixb [91] line && suffixb [93] line).
  { destruct (parse_sid line); [|discriminate]. destruct (containsb sFBComp2 b0); [apply IH|discriminate]. }
  destruct (prefixb str_FWp line).
  { destruct (prefixb str_FWfull line); [apply IH|discriminate]. }
  destruct (prefixb str_PQ line).
  { destruct (length line <? 5)%nat eqn:E; [discriminate|].
    apply Nat.ltb_ge in E. destruct (slice_from_some 5 line E) as [c Hc]. rewrite Hc. apply IH. }
  destruct (suffixb [62] line); [discriminate|apply IH].
Qed.

Lemma handshake_nopanic s : handshake s <> RPanic.
Proof.
  unfold handshake, do_send_handshake. destruct (s_master s).
  - destruct (send_handshake (s_cfg _) []); [|discriminate].
    match goal with |- context [read_handshake ?f ?s2 ?d] =>
      pose proof (read_handshake_nopanic f s2 d) as H; destruct (read_handshake f s2 d) as [[d1 s3]|e s'|] end;
      [|discriminate|congruence].
    destruct (hd_have_sid d1 && negb (beq_bytes (hd_sid d1) [])); discriminate.
  - match goal with |- context [read_handshake ?f ?s2 ?d] =>
      pose proof (read_handshake_nopanic f s2 d) as H; destruct (read_handshake f s2 d) as [[d1 s3]|e s'|] end;
      [|discriminate|congruence].
    destruct (hd_have_sid d1 && negb (beq_bytes (hd_sid d1) [])); [|discriminate].
    destruct (send_handshake (s_cfg s3) (hd_challenge d1)); discriminate.
Qed.

Lemma write_compressed_nopanic s p off : write_compressed s p off <> RPanic.
Proof.
  unfold write_compressed.
  destruct ((off <? 0)%Z || (Z.of_nat (length (o_cdata p)) <? off)%Z); [discriminate|].
  destruct (Z.of_nat (length (o_cdata p)) <? 6)%Z; discriminate.
Qed.

Lemma send_accepted_nopanic props : forall s ans sent, send_accepted s props ans sent <> RPanic.
Proof.
  induction props as [|p ps IH]; intros s ans sent; [discriminate|].
  cbn [send_accepted]. destruct ans as [|a r]; [apply IH|].
  destruct a as [|[| |] off]; try apply IH.
  pose proof (write_compressed_nopanic s p off) as H.
  destruct (write_compressed s p off); [apply IH|discriminate|congruence].
Qed.

Lemma read_reply_nopanic fuel : forall s, read_reply fuel s <> RPanic.
Proof.
  induction fuel as [|f IH]; intros s; [discriminate|]. cbn [read_reply].
  pose proof (next_line_nopanic true s) as Hn.
  destruct (next_line true s) as [[line s1]|e s'|]; [|discriminate|congruence].
  destruct (prefixb [70; 83; 32] line); [discriminate|].
  destruct (prefixb [59] line); [apply IH|discriminate].
Qed.

Lemma read_reply_prefix fuel : forall s line s1,
  read_reply fuel s = ROk (line, s1) -> prefixb [70; 83; 32] line = true.
Proof.
  induction fuel as [|f IH]; intros s line s1 H; [discriminate|]. cbn [read_reply] in H.
  destruct (next_line true s) as [[l s2]|e s'|]; try discriminate.
  destruct (prefixb [70; 83; 32] l) eqn:E.
  - injection H as <- <-. exact E.
  - destruct (prefixb [59] l); [eapply IH; exact H|discriminate].
Qed.

Lemma handle_outbound_nopanic s : handle_outbound s <> RPanic.
Proof.
  unfold handle_outbound. destruct (outbound s) as [props s0].
  destruct props as [|p ps]; [discriminate|].
  match goal with |- context [read_reply ?f ?s2] =>
    pose proof (read_reply_nopanic f s2) as Hr; pose proof (read_reply_prefix f s2) as Hp;
    destruct (read_reply f s2) as [[reply s3]|e s'|] end; [|discriminate|congruence].
  specialize (Hp reply s3 eq_refl). apply prefixb_length in Hp. cbn [length] in Hp.
  destruct (slice_from_some 3 reply Hp) as [astr Ha]. rewrite Ha.
  destruct (parse_answers _ astr _ []) as [ans|]; [|discriminate].
  match goal with |- context [send_accepted ?a ?b ?c ?d] =>
    pose proof (send_accepted_nopanic b a c d) as Hs; destruct (send_accepted a b c d) as [[s4 sent]|e s'|] end;
    [|discriminate|congruence].
  match goal with |- context [s_in ?x] => destruct (s_in x) as [|b r] end; [discriminate|].
  destruct (negb ((b =? 70) || (b =? 59))); [|discriminate].
  match goal with |- context [next_line true ?x] =>
    pose proof (next_line_nopanic true x) as Hn; destruct (next_line true x) as [[l s6]|e s'|] end;
    [discriminate|discriminate|congruence].
Qed.

Lemma parse_proposal_nopanic s line : parse_proposal s line <> RPanic.
Proof.
  unfold parse_proposal. destruct line as [|c0 [|code r]]; try discriminate.
  destruct (negb (c0 =? 70)); [discriminate|].
  destruct ((code =? BasicProposal) || (code =? AsciiProposal)); [discriminate|].
  destruct ((code =? Wl2kProposal) || (code =? GzipProposal)); [|discriminate].
  destruct (length (c0 :: code :: r) <? 4)%nat eqn:E; [discriminate|].
  apply Nat.ltb_ge in E. destruct (slice_from_some 3 (c0 :: code :: r) ltac:(lia)) as [rest Hr]. rewrite Hr.
  destruct (split_on 32 rest) as [|t [|mid [|sz [|csz [|x [|y l]]]]]]; try discriminate.
  destruct (type_ok t); discriminate.
Qed.

Lemma inbound_loop_nopanic fuel : forall s props lines, inbound_loop fuel s props lines <> RPanic.
Proof.
  induction fuel as [|f IH]; intros s props lines; [discriminate|]. cbn [inbound_loop].
  pose proof (next_line_nopanic true s) as Hn.
  destruct (next_line true s) as [[line s1]|e s'|]; [|discriminate|congruence].
  destruct (prefixb str_PM line); [apply IH|].
  destruct line as [|c0 rest0]; [apply IH|].
  destruct (c0 =? 59) eqn:E59.
  { apply N.eqb_eq in E59. subst c0. apply IH. }
  assert (Hm : forall A (a b : A), match c0 with 59 => a | _ => b end = b).
  { intros A a b. destruct c0 as [|p]; [reflexivity|].
    repeat (destruct p as [p|p|]; try reflexivity). discriminate. }
  rewrite Hm.
  destruct ((length (c0 :: rest0) <? 2)%nat || negb (c0 =? 70)) eqn:E2; [discriminate|].
  apply orb_false_iff in E2. destruct E2 as [E2 _]. apply Nat.ltb_ge in E2.
  destruct rest0 as [|c1 r]; [cbn in E2; lia|].
  destruct (in_list c1 [65; 66; 67; 68]).
  { pose proof (parse_proposal_nopanic s1 (c0 :: c1 :: r)) as Hp.
    destruct (parse_proposal s1 (c0 :: c1 :: r)); [apply IH|discriminate|congruence]. }
  destruct (c1 =? 70); [discriminate|]. destruct (c1 =? 81); [discriminate|].
  destruct (c1 =? 62); [|discriminate].
  destruct (slice_from_some 2 (c0 :: c1 :: r) ltac:(cbn; lia)) as [ck Hck]. rewrite Hck. cbv zeta.
  match goal with |- context [negb (?a =? ?b)%Z] => destruct (negb (a =? b)%Z) end; [discriminate|].
  destruct props; [discriminate|].
  match goal with |- context [answer_props ?a ?b ?c ?d] => destruct (answer_props a b c d) end. discriminate.
Qed.

Lemma read_compressed_nopanic s p : read_compressed s p <> RPanic.
Proof.
  unfold read_compressed. destruct (s_in s) as [|c r]; [discriminate|].
  destruct (c =? CHRSOH).
  - destruct r as [|hl r1]; [discriminate|].
    destruct (read_until CHRNUL r1) as [[title r2]|]; [|discriminate].
    destruct (read_until CHRNUL r2) as [[offs r3]|]; [|discriminate].
    destruct (negb (N.to_nat hl =? length title + length offs + 2)%nat); [discriminate|].
    cbv zeta. set (digits := match offs with 45 :: d => d | 43 :: d => d | _ => offs end).
    destruct digits as [|x xs]; [discriminate|].
    destruct (num_of_digits (x :: xs) 0) as [v|]; [|discriminate].
    destruct (9223372036854775807 <? v); [discriminate|]. destruct (negb (v =? 0)); [discriminate|].
    match goal with |- context [read_frames ?a ?b ?c ?d ?e] => destruct (read_frames a b c d e) end; discriminate.
  - destruct (c =? 42); [|discriminate].
    match goal with |- context [next_line true ?x] =>
      pose proof (next_line_nopanic true x) as Hn; destruct (next_line true x) as [[l s6]|e s'|] end;
      [discriminate|discriminate|congruence].
Qed.

Lemma receive_accepted_nopanic props : forall s, receive_accepted s props <> RcPanic.
Proof.
  induction props as [|p r IH]; intros s; [discriminate|]. cbn [receive_accepted].
  destruct (i_answer p); try apply IH.
  pose proof (read_compressed_nopanic s p) as Hr.
  destruct (read_compressed s p) as [[cdata s1]|e s'|]; [|discriminate|congruence].
  destruct (proposal_message cdata); try discriminate.
  destruct (mem_bytes mid (h_fail (s_h s1))); [discriminate|apply IH].
Qed.

Lemma turns_nopanic fuel : forall my s, fst (turns fuel my s) <> XPanic.
Proof.
  induction fuel as [|f IH]; intros my s; [discriminate|]. cbn [turns]. destruct my.
  - pose proof (handle_outbound_nopanic s) as H.
    destruct (handle_outbound s) as [[q s1]|e s'|]; [|destruct e; discriminate|congruence].
    destruct q; [discriminate|apply IH].
  - match goal with |- context [inbound_loop ?a ?b ?c ?d] =>
      pose proof (inbound_loop_nopanic a b c d) as H; destruct (inbound_loop a b c d) as [[[q props] s1]|e s'|] end;
      [|destruct e; discriminate|congruence].
    pose proof (receive_accepted_nopanic props s1) as Hr.
    destruct (receive_accepted s1 props); [|destruct e; discriminate|congruence|discriminate].
    destruct q; [discriminate|apply IH].
Qed.

Theorem exchange_nopanic cfg input : x_res (exchange cfg input) <> XPanic.
Proof.
  unfold exchange.
  destruct (h_present (c_handler cfg) && h_prepare_err (c_handler cfg)); [discriminate|].
  match goal with |- context [handshake ?x] =>
    pose proof (handshake_nopanic x) as H; destruct (handshake x) as [s2|e s'|] end;
    [|destruct e; discriminate|congruence].
  match goal with |- context [turns ?a ?b ?c] =>
    pose proof (turns_nopanic a b c) as Ht; destruct (turns a b c) as [r s3] end.
  cbn [fst] in Ht. cbn [finish x_res]. exact Ht.
Qed.


(* ================= integrity of delivered messages ================= *)
(* what stands behind a successful ProcessInbound call *)
Definition good_delivery (mid data : bytes) : Prop :=
  exists cdata s p s', read_compressed s p = ROk (cdata, s') /\ proposal_message cdata = MOk mid data.

Definition ev_ok (s : sess) : Prop :=
  forall mid data, In (EvProcess mid data true) (s_ev s) -> good_delivery mid data.

Definition res_ok {A} (proj : A -> sess) (r : res sess A) : Prop :=
  match r with ROk a => ev_ok (proj a) | RFail _ s => ev_ok s | RPanic => True end.

Lemma ev_ok_same s s' : s_ev s' = s_ev s -> ev_ok s -> ev_ok s'.
Proof. intros E H mid data Hin. rewrite E in Hin. exact (H mid data Hin). Qed.

Lemma ev_ok_ev s e : (forall mid data, e <> EvProcess mid data true) -> ev_ok s -> ev_ok (ev s e).
Proof.
  intros He H mid data Hin. cbn [ev s_ev] in Hin. destruct Hin as [Hin|Hin]; [|exact (H mid data Hin)].
  exfalso. exact (He mid data Hin).
Qed.

Ltac same := (eapply ev_ok_same; [reflexivity|]).

Lemma next_line_ok pe s : ev_ok s -> res_ok snd (next_line pe s).
Proof.
  intros H. unfold next_line. destruct (read_until 13 (s_in s)) as [[raw rest]|]; cbn [res_ok].
  - destruct (pe && err_line (clean_string raw)); cbn [res_ok snd]; same; exact H.
  - same; exact H.
Qed.

Lemma read_handshake_ok fuel : forall s d, ev_ok s -> res_ok snd (read_handshake fuel s d).
Proof.
  induction fuel as [|f IH]; intros s d H; [exact H|].
  cbn [read_handshake]. destruct (s_in s) as [|b r]; [exact H|].
  destruct ((b =? 70) && s_master s); [exact H|].
  pose proof (next_line_ok false s H) as Hn.
  destruct (next_line false s) as [[line s1]|e s'|]; cbn [res_ok snd] in *; [|exact Hn|exact I].
  destruct (prefixb [91] line && suffixb [93] line).
  { destruct (parse_sid line); [|exact Hn]. destruct (containsb sFBComp2 b0); [apply IH; exact Hn|exact Hn]. }
  destruct (prefixb str_FWp line).
  { destruct (prefixb str_FWfull line); [apply IH; exact Hn|exact Hn]. }
  destruct (prefixb str_PQ line).
  { destruct (length line <? 5)%nat; [exact Hn|]. destruct (slice_from 5 line); [apply IH; exact Hn|exact I]. }
  destruct (suffixb [62] line); [exact Hn|apply IH; exact Hn].
Qed.

Lemma fold_wr_ok {B} (f : B -> bytes) l : forall s, ev_ok s -> ev_ok (fold_left (fun acc x => wr acc (f x)) l s).
Proof. induction l as [|x l IH]; intros s H; [exact H|]. cbn [fold_left]. apply IH. same; exact H. Qed.

Lemma handshake_ok s : ev_ok s -> res_ok (fun x => x) (handshake s).
Proof.
  intros H. unfold handshake, do_send_handshake. destruct (s_master s).
  - pose proof (fold_wr_ok (fun l => l ++ [13]) (s_motd s) s H) as H1. cbv beta in H1.
    set (s1 := fold_left (fun acc l => wr acc (l ++ [13])) (s_motd s) s) in *.
    destruct (send_handshake (s_cfg s1) []); [|exact H1].
    match goal with |- context [read_handshake ?f ?s2 ?d] =>
      pose proof (read_handshake_ok f s2 d ltac:(same; exact H1)) as Hr;
      destruct (read_handshake f s2 d) as [[d1 s3]|e s'|] end; cbn [res_ok snd] in *; [|exact Hr|exact I].
    destruct (hd_have_sid d1 && negb (beq_bytes (hd_sid d1) [])); exact Hr.
  - match goal with |- context [read_handshake ?f ?s2 ?d] =>
      pose proof (read_handshake_ok f s2 d H) as Hr;
      destruct (read_handshake f s2 d) as [[d1 s3]|e s'|] end; cbn [res_ok snd] in *; [|exact Hr|exact I].
    destruct (hd_have_sid d1 && negb (beq_bytes (hd_sid d1) [])); [|exact Hr].
    destruct (send_handshake (s_cfg s3) (hd_challenge d1)); cbn [res_ok]; [same|]; exact Hr.
Qed.

Lemma write_compressed_ok s p off : ev_ok s -> res_ok (fun x => x) (write_compressed s p off).
Proof.
  intros H. unfold write_compressed.
  destruct ((off <? 0)%Z || (Z.of_nat (length (o_cdata p)) <? off)%Z); [exact H|].
  destruct (Z.of_nat (length (o_cdata p)) <? 6)%Z; cbn [res_ok]; same; exact H.
Qed.

Lemma mark_gone_ok s m : ev_ok s -> ev_ok (mark_gone s m).
Proof. intros H. same. exact H. Qed.

Lemma send_accepted_ok props : forall s ans sent, ev_ok s -> res_ok fst (send_accepted s props ans sent).
Proof.
  induction props as [|p ps IH]; intros s ans sent H; [exact H|].
  cbn [send_accepted]. destruct ans as [|a r]; [apply IH; exact H|].
  destruct a as [|[| |] off]; try (apply IH; exact H).
  - pose proof (write_compressed_ok s p off H) as Hw.
    destruct (write_compressed s p off); cbn [res_ok] in *; [apply IH; exact Hw|exact Hw|exact I].
  - apply IH. apply ev_ok_ev; [discriminate|]. apply mark_gone_ok. exact H.
Qed.

Lemma read_reply_ok fuel : forall s, ev_ok s -> res_ok snd (read_reply fuel s).
Proof.
  induction fuel as [|f IH]; intros s H; [exact H|]. cbn [read_reply].
  pose proof (next_line_ok true s H) as Hn.
  destruct (next_line true s) as [[line s1]|e s'|]; cbn [res_ok snd] in *; [|exact Hn|exact I].
  destruct (prefixb [70; 83; 32] line); [exact Hn|].
  destruct (prefixb [59] line); [apply IH; exact Hn|exact Hn].
Qed.

Lemma fold_sent_ok (f : sess -> bytes * bool -> sess) l :
  (forall acc mr, ev_ok acc -> ev_ok (f acc mr)) -> forall s, ev_ok s -> ev_ok (fold_left f l s).
Proof. intros Hf. induction l as [|x l IH]; intros s H; [exact H|]. cbn [fold_left]. apply IH, Hf, H. Qed.

Lemma handle_outbound_ok s : ev_ok s -> res_ok snd (handle_outbound s).
Proof.
  intros H. unfold handle_outbound, outbound.
  assert (H0 : ev_ok (snd (if h_present (s_h s) then
            (sort_props (filter (fun p => negb (mem_bytes (o_mid p) (h_gone (s_h s)))) (h_outbox (s_h s))),
             ev s EvGetOutbound) else ([], s)))).
  { destruct (h_present (s_h s)); cbn [snd]; [apply ev_ok_ev; [discriminate|exact H]|exact H]. }
  destruct (if h_present (s_h s) then _ else _) as [props s0]. cbn [snd] in H0.
  destruct props as [|p ps]; [cbn [res_ok snd]; same; exact H0|].
  set (block := firstn (N.to_nat MaxBlockSize) (p :: ps)).
  pose proof (fold_wr_ok (fun l => l ++ [13]) (map proposal_line block) s0 H0) as H1. cbv beta in H1.
  match goal with |- context [read_reply ?f ?s2] =>
    pose proof (read_reply_ok f s2 ltac:(same; exact H1)) as Hr;
    destruct (read_reply f s2) as [[reply s3]|e s'|] end; cbn [res_ok snd] in *; [|exact Hr|exact I].
  destruct (slice_from 3 reply) as [astr|]; [|exact I].
  destruct (parse_answers _ astr _ []) as [ans|]; [|exact Hr].
  match goal with |- context [send_accepted ?a ?b ?c ?d] =>
    pose proof (send_accepted_ok b a c d Hr) as Hs; destruct (send_accepted a b c d) as [[s4 sent]|e s'|] end;
    cbn [res_ok fst] in *; [|exact Hs|exact I].
  set (s5 := fold_left _ (rev' sent) s4).
  assert (H5 : ev_ok s5).
  { unfold s5. apply fold_sent_ok; [|exact Hs]. intros acc mr Ha. destruct (snd mr); [|exact Ha].
    apply ev_ok_ev; [discriminate|]. apply mark_gone_ok. exact Ha. }
  destruct (s_in s5) as [|b r]; [cbn [res_ok]; apply ev_ok_ev; [discriminate|exact H5]|].
  destruct (negb ((b =? 70) || (b =? 59))).
  - pose proof (next_line_ok true s5 H5) as Hn.
    destruct (next_line true s5) as [[l s6]|e s'|]; cbn [res_ok snd] in *;
      [apply ev_ok_ev; [discriminate|exact Hn]|apply ev_ok_ev; [discriminate|exact Hn]|exact I].
  - cbn [res_ok snd]. apply ev_ok_ev; [discriminate|]. apply fold_sent_ok; [|exact H5].
    intros acc mr Ha. destruct (snd mr); [exact Ha|]. same.
    apply ev_ok_ev; [discriminate|]. apply mark_gone_ok. exact Ha.
Qed.

Lemma answer_props_ok props : forall s seen acc, ev_ok s -> ev_ok (fst (answer_props s props seen acc)).
Proof.
  induction props as [|p r IH]; intros s seen acc H; [exact H|]. cbn [answer_props].
  destruct (mem_bytes (i_mid p) seen || negb ((i_code p =? Wl2kProposal) || (i_code p =? GzipProposal))
            || negb (h_present (s_h s))); apply IH; [exact H|].
  apply ev_ok_ev; [discriminate|exact H].
Qed.

Lemma parse_proposal_ok s line : ev_ok s -> match parse_proposal s line with RFail _ s' => ev_ok s' | _ => True end.
Proof.
  intros H. unfold parse_proposal. destruct line as [|c0 [|code r]]; try exact H.
  destruct (negb (c0 =? 70)); [exact H|].
  destruct ((code =? BasicProposal) || (code =? AsciiProposal)); [exact I|].
  destruct ((code =? Wl2kProposal) || (code =? GzipProposal)); [|exact H].
  destruct (length (c0 :: code :: r) <? 4)%nat; [exact H|].
  destruct (slice_from 3 (c0 :: code :: r)); [|exact I].
  destruct (split_on 32 b) as [|t [|mid [|sz [|csz [|x [|y l]]]]]]; try exact H.
  destruct (type_ok t); [exact I|exact H].
Qed.

Lemma inbound_loop_ok fuel : forall s props lines, ev_ok s ->
  res_ok (fun x => snd x) (inbound_loop fuel s props lines).
Proof.
  induction fuel as [|f IH]; intros s props lines H; [exact H|]. cbn [inbound_loop].
  pose proof (next_line_ok true s H) as Hn.
  destruct (next_line true s) as [[line s1]|e s'|]; cbn [res_ok snd] in *; [|exact Hn|exact I].
  destruct (prefixb str_PM line); [apply IH; exact Hn|].
  destruct line as [|c0 rest0]; [apply IH; exact Hn|].
  destruct (c0 =? 59) eqn:E59.
  { apply N.eqb_eq in E59. subst c0. apply IH; exact Hn. }
  assert (Hm : forall A (a b : A), match c0 with 59 => a | _ => b end = b).
  { intros A a b. destruct c0 as [|p]; [reflexivity|].
    repeat (destruct p as [p|p|]; try reflexivity). discriminate. }
  rewrite Hm.
  destruct ((length (c0 :: rest0) <? 2)%nat || negb (c0 =? 70)); [exact Hn|].
  destruct rest0 as [|c1 r]; [exact I|].
  destruct (in_list c1 [65; 66; 67; 68]).
  { pose proof (parse_proposal_ok s1 (c0 :: c1 :: r) Hn) as Hp.
    destruct (parse_proposal s1 (c0 :: c1 :: r)); [apply IH; exact Hn|exact Hp|exact I]. }
  destruct (c1 =? 70); [cbn [res_ok snd]; same; exact Hn|]. destruct (c1 =? 81); [exact Hn|].
  destruct (c1 =? 62); [|exact Hn].
  destruct (slice_from 2 (c0 :: c1 :: r)); [|exact I]. cbv zeta.
  match goal with |- context [negb (?a =? ?b)%Z] => destruct (negb (a =? b)%Z) end; [exact Hn|].
  destruct props; [cbn [res_ok snd]; same; exact Hn|].
  match goal with |- context [answer_props ?a ?b ?c ?d] =>
    pose proof (answer_props_ok b a c d ltac:(same; exact Hn)) as Ha; destruct (answer_props a b c d) as [s2 answered] end.
  cbn [res_ok snd fst] in *. same. exact Ha.
Qed.

Lemma read_compressed_ok s p : ev_ok s -> res_ok snd (read_compressed s p).
Proof.
  intros H. unfold read_compressed. destruct (s_in s) as [|c r]; [exact H|].
  destruct (c =? CHRSOH).
  - destruct r as [|hl r1]; [cbn [res_ok]; same; exact H|].
    destruct (read_until CHRNUL r1) as [[title r2]|]; [|cbn [res_ok]; same; exact H].
    destruct (read_until CHRNUL r2) as [[offs r3]|]; [|cbn [res_ok]; same; exact H].
    destruct (negb (N.to_nat hl =? length title + length offs + 2)%nat); [cbn [res_ok]; same; exact H|].
    cbv zeta. set (digits := match offs with 45 :: d => d | 43 :: d => d | _ => offs end).
    destruct digits as [|x xs]; [cbn [res_ok]; same; exact H|].
    destruct (num_of_digits (x :: xs) 0) as [v|]; [|cbn [res_ok]; same; exact H].
    destruct (9223372036854775807 <? v); [cbn [res_ok]; same; exact H|].
    destruct (negb (v =? 0)); [cbn [res_ok]; same; exact H|].
    match goal with |- context [read_frames ?a ?b ?c ?d ?e] => destruct (read_frames a b c d e) end;
      cbn [res_ok snd]; same; exact H.
  - destruct (c =? 42); [|cbn [res_ok]; same; exact H].
    match goal with |- context [next_line true ?x] =>
      pose proof (next_line_ok true x ltac:(same; exact H)) as Hn; destruct (next_line true x) as [[l s6]|e s'|] end;
      cbn [res_ok snd] in *; [exact Hn|exact Hn|exact I].
Qed.

Lemma receive_accepted_ok props : forall s, ev_ok s ->
  match receive_accepted s props with RcOk s' => ev_ok s' | RcErr _ s' => ev_ok s' | _ => True end.
Proof.
  induction props as [|p r IH]; intros s H; [exact H|]. cbn [receive_accepted].
  destruct (i_answer p); try (apply IH; exact H).
  pose proof (read_compressed_ok s p H) as Hr.
  destruct (read_compressed s p) as [[cdata s1]|e s'|] eqn:ER; cbn [res_ok snd] in *; [|exact Hr|exact I].
  destruct (proposal_message cdata) as [mid data|e|] eqn:EM; [|exact Hr|exact I].
  assert (Hgood : good_delivery mid data) by (exists cdata, s, p, s1; split; assumption).
  destruct (mem_bytes mid (h_fail (s_h s1))).
  - apply ev_ok_ev; [discriminate|exact Hr].
  - apply IH. same. intros m d Hin. cbn [ev s_ev] in Hin. destruct Hin as [Hin|Hin].
    + injection Hin as <- <-. exact Hgood.
    + exact (Hr m d Hin).
Qed.

Lemma turns_ok fuel : forall my s, ev_ok s -> ev_ok (snd (turns fuel my s)).
Proof.
  induction fuel as [|f IH]; intros my s H; [exact H|]. cbn [turns]. destruct my.
  - pose proof (handle_outbound_ok s H) as Ho.
    destruct (handle_outbound s) as [[q s1]|e s'|]; cbn [res_ok snd] in *; [|exact Ho|exact H].
    destruct q; [exact Ho|apply IH; exact Ho].
  - match goal with |- context [inbound_loop ?a ?b ?c ?d] =>
      pose proof (inbound_loop_ok a b c d H) as Hi; destruct (inbound_loop a b c d) as [[[q props] s1]|e s'|] end;
      cbn [res_ok snd] in *; [|exact Hi|exact H].
    pose proof (receive_accepted_ok props s1 Hi) as Hr.
    destruct (receive_accepted s1 props); cbn [snd]; [|exact Hr|exact Hi|exact Hi].
    destruct q; [exact Hr|apply IH; exact Hr].
Qed.

(* every successful ProcessInbound of a whole exchange is backed by an accepted transfer whose
   payload decompressed with a successful Close and parsed as a message with that Mid *)
Theorem exchange_integrity cfg input mid data :
  In (EvProcess mid data true) (x_events (exchange cfg input)) -> good_delivery mid data.
Proof.
  unfold exchange.
  set (s0 := {| s_in := input; s_out := []; s_ev := []; s_h := c_handler cfg; s_master := c_master cfg;
                s_remote_nomsgs := false; s_sent := []; s_recv := []; s_cfg := c_hs cfg; s_motd := c_motd cfg |}).
  assert (H0 : ev_ok s0) by (intros m d Hin; destruct Hin).
  set (s1 := if h_present (c_handler cfg) then ev s0 EvPrepare else s0).
  assert (H1 : ev_ok s1).
  { unfold s1. destruct (h_present (c_handler cfg)); [apply ev_ok_ev; [discriminate|exact H0]|exact H0]. }
  assert (Hfin : forall r s, ev_ok s -> In (EvProcess mid data true) (x_events (finish (length input) r s)) ->
                 good_delivery mid data).
  { intros r s Hs Hin. unfold finish in Hin. cbn [x_events] in Hin.
    unfold rev' in Hin. rewrite <- rev_alt in Hin. apply in_rev in Hin.
    destruct r; cbn [wr s_ev] in Hin; exact (Hs mid data Hin). }
  destruct (h_present (c_handler cfg) && h_prepare_err (c_handler cfg)); [apply Hfin; exact H1|].
  pose proof (handshake_ok s1 H1) as Hh.
  destruct (handshake s1) as [s2|e s'|]; cbn [res_ok] in Hh; [|apply Hfin; exact Hh|apply Hfin; exact H1].
  match goal with |- context [turns ?a ?b ?c] =>
    pose proof (turns_ok a b c Hh) as Ht; destruct (turns a b c) as [r s3] end.
  cbn [snd] in Ht. apply Hfin. exact Ht.
Qed.

(* what an accepted transfer means: the frames' checksum byte closes the sum to zero and the
   number of data bytes equals the compressed size announced in the proposal *)
Lemma take_n_extends n : forall inp acc s b' r' s',
  take_n n inp acc s = Some (b', r', s') -> exists x, b' = x ++ acc.
Proof.
  induction n as [|n IHn]; intros inp acc s b' r' s' Hn.
  - injection Hn as <- _ _. exists []. reflexivity.
  - cbn in Hn. destruct inp as [|y inp]; [discriminate|]. apply IHn in Hn. destruct Hn as [x ->].
    exists (x ++ [y]). rewrite <- app_assoc. reflexivity.
Qed.

Lemma read_frames_ok_facts fuel : forall inp buf sum csize data rest,
  read_frames fuel inp buf sum csize = FOk data rest ->
  csize = Z.of_nat (length data) /\ exists pre, data = rev buf ++ pre.
Proof.
  induction fuel as [|f IH]; intros inp buf sum csize data rest H; [discriminate|].
  cbn [read_frames] in H. destruct inp as [|c r]; [discriminate|].
  destruct (c =? CHRSTX).
  - destruct r as [|l r1]; cbn iota beta zeta in H;
      (match type of H with context [take_n ?a ?b ?c ?d] =>
         destruct (take_n a b c d) as [[[buf' r2] sum']|] eqn:ET end; [|discriminate]);
      (apply IH in H; destruct H as [H1 [pre H2]]; split; [exact H1|];
       apply take_n_extends in ET; destruct ET as [x ->];
       rewrite rev_app_distr in H2; exists (rev x ++ pre); rewrite H2, <- app_assoc; reflexivity).
  - destruct (c =? CHREOT); [|discriminate].
    destruct r as [|k r1]; cbn iota beta zeta in H;
      (match type of H with context [negb ((sum + ?ck) mod 256 =? 0)] =>
         destruct (negb ((sum + ck) mod 256 =? 0)) end; [discriminate|]);
      (destruct (negb (csize =? Z.of_nat (length buf))%Z) eqn:E; [discriminate|]);
      (injection H as <- <-; apply negb_false_iff, Z.eqb_eq in E; unfold rev'; rewrite <- rev_alt; split;
       [rewrite E, rev_length; reflexivity|exists []; rewrite app_nil_r; reflexivity]).
Qed.

(* what a delivered payload means: the LZHUF reader consumed it to end-of-stream and Close
   succeeded (so, by C08_close_certifies, the CRC-16 and the declared size hold), and the
   message parser accepted the result *)
Theorem proposal_message_ok_facts cdata mid data :
  proposal_message cdata = MOk mid data ->
  exists d d', new_reader true [cdata] = Some d /\
    read_all_loop (S (S (length cdata * 8))) d 512 [] = (data, REof, d') /\
    close_reader d' = ErrNone /\ p_status (read_from data) = RfOk /\
    mid = hget (p_hdr (read_from data)) str_Mid.
Proof.
  unfold proposal_message, decompress. intros H.
  destruct (length cdata <? 6)%nat; [discriminate|].
  destruct (new_reader true [cdata]) as [d|]; [|discriminate].
  destruct (read_all_loop (S (S (length cdata * 8))) d 512 []) as [[out st] d'] eqn:ER.
  destruct st as [| |e]; [discriminate| |destruct e; discriminate].
  destruct (close_reader d') eqn:EC; try discriminate.
  destruct (p_status (read_from out)) as [|eof|e| |] eqn:EP; try discriminate; try (destruct eof; discriminate).
  injection H as <- <-. exists d, d'. repeat split; auto.
Qed.
