(* B2F/Grammar.v — an independent validator for B2F wire traffic, written from the protocol
   documents (docs/F6FBB-B2F/protocole.html, sid.html and the Winlink B2F description), not
   from the code: it imports neither B2F/Side.v nor gen/Tables.v.  Given the two byte streams of
   a completed session it tokenises each into lines and framed transfers and replays the
   half-duplex protocol, checking everything both stations emitted:
     SID syntax ([name-version-features], B2 present, '$' last), handshake comment lines,
     ;FW syntax, prompt; proposals "FC EM mid usize csize 0" (mid 1..12, at most five per
     block), block checksum over the bytes of the proposal lines including CR, one answer per
     proposal from the documented alphabet, transfers for exactly the accepted proposals in
     order: SOH len title NUL offset NUL with correct len, title 1..80 bytes, the requested
     offset, STX blocks of 1..256 bytes, EOT checksum, total length csize - offset, and for
     offset 0 a payload that the canonical LZHUF codec decodes to usize bytes with correct
     CRC-16; FF / FQ turn-taking.  Definitions only. *)
From Verif Require Import Base.Bytes Lzhuf.Canon.
Open Scope N_scope.

Inductive elem :=
| Line (l : bytes)                                   (* without the CR *)
| Transfer (hlen : N) (title offs : bytes) (data : bytes) (blocks_ok : bool) (cks_ok : bool)
| Garbage (rest : bytes).                            (* unterminated tail *)

(* ---------- tokeniser ---------- *)
Fixpoint take_until (c : N) (s acc : bytes) : option (bytes * bytes) :=
  match s with
  | [] => None
  | x :: r => if x =? c then Some (rev' acc, r) else take_until c r (x :: acc)
  end.

Fixpoint take_k (k : nat) (s acc : bytes) : option (bytes * bytes) :=
  match k with
  | O => Some (rev' acc, s)
  | S k' => match s with [] => None | x :: r => take_k k' r (x :: acc) end
  end.

(* blocks after the header: returns data, blocks well formed, checksum ok, rest *)
Fixpoint blocks (fuel : nat) (s : bytes) (acc : list bytes) (sum : N) : option (bytes * bool * bool * bytes) :=
  match fuel with
  | O => None
  | S f =>
      match s with
      | 2 :: l :: r =>
          let n := if l =? 0 then 256%nat else N.to_nat l in
          match take_k n r [] with
          | Some (d, r') => blocks f r' (d :: acc) ((sum + sumN d) mod 256)
          | None => None
          end
      | 4 :: c :: r => Some (concat (rev' acc), true, ((sum + c) mod 256 =? 0), r)
      | _ => None
      end
  end.

Fixpoint tokens (fuel : nat) (s : bytes) : list elem :=
  match fuel with
  | O => []
  | S f =>
      match s with
      | [] => []
      | 1 :: hl :: r =>
          match take_until 0 r [] with
          | Some (title, r1) =>
              match take_until 0 r1 [] with
              | Some (offs, r2) =>
                  match blocks (S (length r2)) r2 [] 0 with
                  | Some (d, bok, cok, r3) => Transfer hl title offs d bok cok :: tokens f r3
                  | None => [Garbage s]
                  end
              | None => [Garbage s]
              end
          | None => [Garbage s]
          end
      | _ =>
          match take_until 13 s [] with
          | Some (l, r) => Line l :: tokens f r
          | None => [Garbage s]
          end
      end
  end.

(* ---------- lexical checks ---------- *)
Definition is_alnum (b : N) : bool := is_digit b || is_upper b || is_lower b.
Definition all_digits (s : bytes) : bool := match s with [] => false | _ => forallb is_digit s end.
Fixpoint dec_value (s : bytes) (acc : N) : N :=
  match s with [] => acc | d :: r => dec_value r (acc * 10 + (d - 48)) end.

(* [name-version-features]: features contain "B2" and end in '$'; no '-' inside name, version *)
Definition valid_sid (l : bytes) : bool :=
  match l with
  | 91 :: r =>
      match rev' r with
      | 93 :: 36 :: body_rev =>
          let body := rev' body_rev in                         (* name-version-features without $ *)
          match split_on 45 body with
          | [name; version; feat] =>
              negb (beq_bytes name []) && negb (beq_bytes version []) && containsb [66; 50] (upper feat)
          | _ => false
          end
      | _ => false
      end
  | _ => false
  end.

Definition is_comment (l : bytes) : bool := match l with 59 :: _ => true | _ => false end.

(* ";FW: addr[|digits] addr ..." *)
Definition valid_fw (l : bytes) : bool :=
  match l with
  | 59 :: 70 :: 87 :: 58 :: 32 :: r =>
      forallb (fun item =>
                 match split_on 124 item with
                 | [a] => negb (beq_bytes a [])
                 | [a; h] => negb (beq_bytes a []) && all_digits h && (length h =? 8)%nat
                 | _ => false
                 end) (split_on 32 r)
  | 59 :: 70 :: 87 :: 58 :: [] => true
  | _ => false
  end.

Definition valid_pr (l : bytes) : bool :=
  match l with
  | 59 :: 80 :: 82 :: 58 :: 32 :: r => all_digits r && (length r =? 8)%nat
  | _ => false
  end.

Record prop := { g_mid : bytes; g_usize : N; g_csize : N }.

(* "FC EM mid usize csize 0" (type EM or CM; D allowed for the gzip experiment) *)
Definition parse_prop (l : bytes) : option prop :=
  match split_on 32 l with
  | [cmd; ty; mid; us; cs; zero] =>
      if (beq_bytes cmd [70; 67] || beq_bytes cmd [70; 68])
         && (beq_bytes ty [69; 77] || beq_bytes ty [67; 77])
         && negb (beq_bytes mid []) && (length mid <=? 12)%nat && forallb is_alnum mid
         && all_digits us && all_digits cs && all_digits zero
      then Some {| g_mid := mid; g_usize := dec_value us 0; g_csize := dec_value cs 0 |}
      else None
  | _ => None
  end.

Definition hex_digit (b : N) : option N :=
  if is_digit b then Some (b - 48)
  else if (65 <=? b) && (b <=? 70) then Some (b - 55)
  else if (97 <=? b) && (b <=? 102) then Some (b - 87) else None.

(* "F> HH": the two's complement of the byte sum of the proposal lines (each with its CR) *)
Definition valid_prompt (l : bytes) (lines : list bytes) : bool :=
  match l with
  | [70; 62; 32; h1; h2] =>
      match hex_digit h1, hex_digit h2 with
      | Some a, Some b =>
          let sum := fold_left (fun acc x => acc + sumN x + 13) lines 0 in
          ((sum + a * 16 + b) mod 256 =? 0)
      | _, _ => false
      end
  | _ => false
  end.

Inductive gans := GAccept (offset : N) | GReject | GDefer.

(* "FS " answers: + Y accept, - N R reject, = L H defer/hold (E error is treated as reject),
   ! or A followed by a decimal offset *)
Fixpoint parse_fs (fuel : nat) (s : bytes) : option (list gans) :=
  match fuel with
  | O => None
  | S f =>
      match s with
      | [] => Some []
      | c :: r =>
          let more (a : gans) (rest : bytes) :=
            match parse_fs f rest with Some l => Some (a :: l) | None => None end in
          if existsb (fun x => x =? c) [43; 89; 121] then more (GAccept 0) r
          else if existsb (fun x => x =? c) [45; 78; 110; 82; 114; 69; 101] then more GReject r
          else if existsb (fun x => x =? c) [61; 76; 108; 72; 104] then more GDefer r
          else if existsb (fun x => x =? c) [33; 65; 97] then
            let ds := (fix digits (l : bytes) : bytes :=
                         match l with d :: l' => if is_digit d then d :: digits l' else [] | [] => [] end) r in
            match ds with
            | [] => None
            | _ => more (GAccept (dec_value ds 0)) (skipn (length ds) r)
            end
          else None
      end
  end.

Definition fs_answers (l : bytes) : option (list gans) :=
  match l with
  | 70 :: 83 :: 32 :: r => parse_fs (S (length r)) r
  | _ => None
  end.

(* a transfer for proposal p accepted at offset off *)
Definition valid_transfer (e : elem) (p : prop) (off : N) : bool :=
  match e with
  | Transfer hl title offs data bok cok =>
      (N.to_nat hl =? length title + length offs + 2)%nat
      && (1 <=? length title)%nat && (length title <=? 80)%nat
      && all_digits offs && (dec_value offs 0 =? off)
      && bok && cok
      && (N.of_nat (length data) + off =? g_csize p)
      && (if off =? 0 then
            match Canon.decode true data with
            | Some x => N.of_nat (length x) =? g_usize p
            | None => false
            end
          else true)
  | _ => false
  end.

(* ---------- the protocol ---------- *)
Inductive verdict := VOk | VBad (who : bool (* true = master *)) (why : N) (at_elem : nat).

(* the two element streams and how many elements of each have been consumed *)
Record gst := { gm : list elem; gs : list elem; nm : nat; ns : nat }.

Definition pop (st : gst) (master : bool) : option (elem * gst) :=
  if master then
    match gm st with
    | e :: r => Some (e, {| gm := r; gs := gs st; nm := S (nm st); ns := ns st |})
    | [] => None
    end
  else
    match gs st with
    | e :: r => Some (e, {| gm := gm st; gs := r; nm := nm st; ns := S (ns st) |})
    | [] => None
    end.

Definition pos (st : gst) (master : bool) : nat := if master then nm st else ns st.

(* next non-comment line of a station *)
Fixpoint next_cmd (fuel : nat) (st : gst) (master : bool) : option (bytes * gst) + verdict :=
  match fuel with
  | O => inr (VBad master 1 (pos st master))
  | S f =>
      match pop st master with
      | None => inr (VBad master 2 (pos st master))                 (* stream ended where a line was due *)
      | Some (Line l, st') => if is_comment l then next_cmd f st' master else inl (Some (l, st'))
      | Some (_, _) => inr (VBad master 3 (pos st master))          (* a transfer or garbage where a line was due *)
      end
  end.

(* the proposal lines of a block, up to the prompt *)
Fixpoint read_block (fuel : nat) (st : gst) (master : bool) (first : bytes) (acc : list bytes) (props : list prop)
  : (list prop * gst) + verdict :=
  match fuel with
  | O => inr (VBad master 4 (pos st master))
  | S f =>
      match parse_prop first with
      | None => inr (VBad master 5 (pos st master))                 (* malformed proposal *)
      | Some p =>
          let acc' := acc ++ [first] in
          let props' := props ++ [p] in
          if (5 <? length props')%nat then inr (VBad master 6 (pos st master))     (* more than five *)
          else
            match next_cmd (S (length (gm st) + length (gs st))) st master with
            | inr v => inr v
            | inl None => inr (VBad master 7 (pos st master))
            | inl (Some (l, st')) =>
                match l with
                | 70 :: 62 :: _ =>
                    if valid_prompt l acc' then inl (props', st') else inr (VBad master 8 (pos st master))
                | _ => read_block f st' master l acc' props'
                end
            end
      end
  end.

Fixpoint send_transfers (st : gst) (master : bool) (props : list prop) (ans : list gans) : gst + verdict :=
  match props, ans with
  | [], [] => inl st
  | p :: ps, a :: asw =>
      match a with
      | GAccept off =>
          match pop st master with
          | Some (e, st') =>
              if valid_transfer e p off then send_transfers st' master ps asw
              else inr (VBad master 9 (pos st master))              (* bad transfer *)
          | None => inr (VBad master 10 (pos st master))            (* transfer missing *)
          end
      | _ => send_transfers st master ps asw
      end
  | _, _ => inr (VBad (negb master) 11 (pos st (negb master)))      (* answer count mismatch *)
  end.

(* turns: `master` is the station whose turn it is *)
Fixpoint turns (fuel : nat) (st : gst) (master : bool) : verdict :=
  match fuel with
  | O => VBad master 12 (pos st master)
  | S f =>
      match next_cmd (S (length (gm st) + length (gs st))) st master with
      | inr v => v
      | inl None => VBad master 13 (pos st master)
      | inl (Some (l, st1)) =>
          if beq_bytes l [70; 70] then turns f st1 (negb master)
          else if beq_bytes l [70; 81] then
            (* quit: nothing may follow from either station *)
            match gm st1, gs st1 with
            | [], [] => VOk
            | _ :: _, _ => VBad true 14 (nm st1)
            | _, _ :: _ => VBad false 14 (ns st1)
            end
          else
            match read_block 6 st1 master l [] [] with
            | inr v => v
            | inl (props, st2) =>
                match next_cmd (S (length (gm st2) + length (gs st2))) st2 (negb master) with
                | inr v => v
                | inl None => VBad (negb master) 15 (pos st2 (negb master))
                | inl (Some (fsl, st3)) =>
                    match fs_answers fsl with
                    | None => VBad (negb master) 16 (pos st2 (negb master))        (* malformed answer line *)
                    | Some ans =>
                        if negb (length ans =? length props)%nat then VBad (negb master) 11 (pos st2 (negb master))
                        else
                          match send_transfers st3 master props ans with
                          | inr v => v
                          | inl st4 => turns f st4 (negb master)
                          end
                    end
                end
            end
      end
  end.

(* handshake of the master: free text / comment lines, exactly one SID, ends with a prompt *)
Fixpoint master_handshake (fuel : nat) (st : gst) (sids : nat) : gst + verdict :=
  match fuel with
  | O => inr (VBad true 20 (nm st))
  | S f =>
      match pop st true with
      | Some (Line l, st') =>
          let sids' := if prefixb [91] l && suffixb [93] l then S sids else sids in
          if prefixb [91] l && suffixb [93] l && negb (valid_sid l) then inr (VBad true 21 (nm st))
          else if prefixb [59; 70; 87] l && negb (valid_fw l) then inr (VBad true 22 (nm st))
          else if suffixb [62] l then
            (if (sids' =? 1)%nat then inl st' else inr (VBad true 23 (nm st)))
          else master_handshake f st' sids'
      | _ => inr (VBad true 24 (nm st))
      end
  end.

(* handshake of the slave: comment lines and exactly one SID, up to its first F command *)
Fixpoint slave_handshake (fuel : nat) (st : gst) (sids : nat) : gst + verdict :=
  match fuel with
  | O => inr (VBad false 30 (ns st))
  | S f =>
      match gs st with
      | Line (70 :: _) :: _ => if (sids =? 1)%nat then inl st else inr (VBad false 33 (ns st))
      | Line l :: _ =>
          match pop st false with
          | Some (_, st') =>
              if prefixb [91] l && suffixb [93] l then
                (if valid_sid l then slave_handshake f st' (S sids) else inr (VBad false 31 (ns st)))
              else if prefixb [59; 70; 87] l then
                (if valid_fw l then slave_handshake f st' sids else inr (VBad false 32 (ns st)))
              else if prefixb [59; 80; 82] l then
                (if valid_pr l then slave_handshake f st' sids else inr (VBad false 35 (ns st)))
              else if is_comment l then slave_handshake f st' sids
              else inr (VBad false 34 (ns st))
          | None => inr (VBad false 36 (ns st))
          end
      | _ => inr (VBad false 37 (ns st))
      end
  end.

(* a completed session: master_stream is everything the master wrote, slave_stream the slave *)
Definition validate (master_stream slave_stream : bytes) : verdict :=
  let em := tokens (S (length master_stream)) master_stream in
  let es := tokens (S (length slave_stream)) slave_stream in
  let st0 := {| gm := em; gs := es; nm := 0; ns := 0 |} in
  match master_handshake (S (length em)) st0 0 with
  | inr v => v
  | inl st1 =>
      match slave_handshake (S (length es)) st1 0 with
      | inr v => v
      | inl st2 => turns (S (length em + length es)) st2 false
      end
  end.
