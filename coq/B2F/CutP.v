(* B2F/CutP.v -- cutting the link: what one side of a B2F session (B2F/Side.v, `exchange`) has
   done does not depend on bytes it has not read yet; the two halves of "a link failure never
   marks an undelivered message sent".  No axioms; every statement below that is called a lemma, theorem or example is proved.

   MAIN RESULTS
   1. CAUSALITY  (exchange_cut).  For every cfg, I1, I2 with I1 not ending in the byte EOT (4):
        - if exchange cfg I1 does not end with XConnLost, exchange cfg (I1 ++ I2) has the same
          result, wire, events, sent and received lists (same_obs);
        - if it ends with XConnLost (and the longer run is not XUnknown, the model's "date layout
          not modelled" verdict, which forgets the turn in progress), the longer run CONTINUES it:
          wire, sent, received are extended, and the events are extended except that the EvBlockEnd
          which closes the failed outbound turn may come later (continues).
      Technical core: for every input-consuming function f of Side.v a lemma `f_ext`:
        f (ext i2 s) is determined by f s (relx / rel / rrel / trel), where ext i2 s is s with i2
        appended to the unread input; results do not depend on surplus fuel (two fuels).
      THE HYPOTHESIS CANNOT BE DROPPED (cut_after_eot_counterexample, closed, by vm_compute):
      after the EOT of a transfer the model -- like the Go code, which ignores the error of the
      ReadByte fetching the checksum -- reads a missing checksum byte as 0.  Cut exactly there, a
      transfer whose bytes sum to 0 mod 256 is accepted, stored (EvProcess ... true) and answered
      (FF), whereas with a following byte 1 it is refused.  The unrestricted statement "for all
      I1 I2" is therefore false; the corrected one excludes cuts right after a byte 4
      (ends_eot I1).  With the genuine next byte (0) both runs agree, so a correct sender never
      exhibits the divergence.
   2. SENDER HALF  (sent_only_after_next_command; turns_sent, handle_outbound_mark).  If
      EvSetSent mid false is among the events of exchange cfg I then I = I1 ++ c :: I2 with
      c = 'F' or ';', the run on I1 ends with XConnLost, has NOT recorded EvSetSent mid false, and
      its wire is an initial part of the wire of the run on I.
   3. RECEIVER HALF  (receiver_half; receive_accepted_silent, handle_outbound_speaks,
      finish_echo).  After the proposal loop of a peer's turn (state s1, FS line last written),
      whatever is written later either is nothing (plus possibly the error report, which starts
      with '*'), or starts with a line beginning with 'F' and then every accepted proposal of the
      block was received completely, passed the frame checks, decompressed, parsed and was stored
      successfully (block_processed) before that line.
   4. TWO-PARTY SAFETY (Properties/C02.v): NOT proved.  The statement as written is FALSE
      (two_party_safety_as_stated_is_false, closed): the announced MID need not be the MID inside
      the compressed message.  The corrected statement with the hypothesis outbox_wf (and
      opposite roles) is given as two_party_safety_corrected, unproved.

   NOT DONE
   - strong form of 2: that the run cut before c has written the COMPLETE framed transfer of mid
     (needs "truncation" lemmas: a run that leaves k unread behaves the same without k; only the
     forward direction f s => f (ext k s) is proved here);
   - the simulation for 4 and its inverse lemmas (parse_proposal (proposal_line p), parse_answers
     of the written FS line, each side's handshake lines accepted by the other's read_handshake). *)
From Coq Require Import List NArith ZArith Bool Lia ZifyN ZifyNat ZifyBool.
From Verif Require Import Base.Bytes Base.BytesP gen.Tables Lzhuf.Dec Msg.Message B2F.Secure B2F.Side B2F.SideP
  B2F.TermP B2F.CodecP.
Import ListNotations.
Open Scope N_scope.

(* ================================================================================== *)
(* 0. Lists, suffixes, the corner                                                     *)
(* ================================================================================== *)

(* r is what is left of i after reading some bytes of it *)
Definition sfx (r i : bytes) : Prop := exists p, i = p ++ r.

Lemma sfx_refl i : sfx i i.
Proof. exists []. reflexivity. Qed.
Lemma sfx_trans a b c : sfx a b -> sfx b c -> sfx a c.
Proof. intros [p ->] [q ->]. exists (q ++ p). rewrite app_assoc. reflexivity. Qed.
Lemma sfx_cons x r : sfx r (x :: r).
Proof. exists [x]. reflexivity. Qed.
Lemma sfx_cons_l x r i : sfx (x :: r) i -> sfx r i.
Proof. intros H. eapply sfx_trans; [apply sfx_cons|exact H]. Qed.
Lemma sfx_nil i : sfx [] i.
Proof. exists i. rewrite app_nil_r. reflexivity. Qed.
Lemma sfx_length r i : sfx r i -> (length r <= length i)%nat.
Proof. intros [p ->]. rewrite app_length. lia. Qed.

(* the input ends with the byte EOT (4): the only cut position at which the model (like the
   Go code, which ignores the error of the ReadByte that fetches the checksum of a transfer)
   behaves differently from a run that sees the following byte *)
Definition ends_eot (i : bytes) : Prop := exists p, i = p ++ [CHREOT].

Lemma ends_eot_sfx r i : sfx r i -> ends_eot r -> ends_eot i.
Proof. intros [p ->] [q ->]. exists (p ++ q). rewrite app_assoc. reflexivity. Qed.

(* reversed logs: l1 is an initial part of the log l2 *)
Definition pre {A} (l1 l2 : list A) : Prop := exists x, l2 = x ++ l1.
Lemma pre_refl {A} (l : list A) : pre l l.
Proof. exists []. reflexivity. Qed.
Lemma pre_trans {A} (a b c : list A) : pre a b -> pre b c -> pre a c.
Proof. intros [x ->] [y ->]. exists (y ++ x). rewrite app_assoc. reflexivity. Qed.
Lemma pre_cons {A} (a b : list A) x : pre a b -> pre a (x :: b).
Proof. intros [y ->]. exists (x :: y). reflexivity. Qed.

(* ---------- split_at / read_until on a longer input ---------- *)
Lemma split_at_some c : forall s a r, split_at c s = (a, Some r) -> s = a ++ c :: r.
Proof.
  induction s as [|x s IH]; intros a r H; cbn [split_at] in H; [discriminate|].
  destruct (x =? c) eqn:E.
  - apply N.eqb_eq in E. inversion H; subst. reflexivity.
  - destruct (split_at c s) as [a' [r'|]] eqn:E'; inversion H; subst.
    rewrite (IH _ _ eq_refl). reflexivity.
Qed.

Lemma split_at_app_some c i2 : forall s a r,
  split_at c s = (a, Some r) -> split_at c (s ++ i2) = (a, Some (r ++ i2)).
Proof.
  induction s as [|x s IH]; intros a r H; cbn [split_at] in H; [discriminate|].
  cbn [app split_at]. destruct (x =? c).
  - inversion H; subst. reflexivity.
  - destruct (split_at c s) as [a' [r'|]] eqn:E'; inversion H; subst.
    rewrite (IH _ _ eq_refl). reflexivity.
Qed.

Lemma read_until_app c i1 i2 a r :
  read_until c i1 = Some (a, r) -> read_until c (i1 ++ i2) = Some (a, r ++ i2).
Proof.
  unfold read_until. destruct (split_at c i1) as [a' [r'|]] eqn:E; intros H; inversion H; subst.
  rewrite (split_at_app_some c i2 _ _ _ E). reflexivity.
Qed.

Lemma read_until_sfx c i a r : read_until c i = Some (a, r) -> sfx r i.
Proof.
  unfold read_until. destruct (split_at c i) as [a' [r'|]] eqn:E; intros H; inversion H; subst.
  apply split_at_some in E. subst i. exists (a ++ [c]). rewrite <- app_assoc. reflexivity.
Qed.

(* ================================================================================== *)
(* 1. States: more input, same observations, growth                                   *)
(* ================================================================================== *)

(* the same state with i2 appended to the input that is still to be read *)
Definition ext (i2 : bytes) (s : sess) : sess := set_in s (s_in s ++ i2).

(* equal up to the remaining input *)
Definition eqo (s1 s2 : sess) : Prop := set_in s1 [] = set_in s2 [].

Lemma eqo_refl s : eqo s s. Proof. reflexivity. Qed.
Lemma eqo_sym a b : eqo a b -> eqo b a. Proof. unfold eqo. congruence. Qed.
Lemma eqo_trans a b c : eqo a b -> eqo b c -> eqo a c. Proof. unfold eqo. congruence. Qed.
Lemma eqo_set_in s i : eqo s (set_in s i). Proof. reflexivity. Qed.
Lemma eqo_ext s i2 : eqo s (ext i2 s). Proof. reflexivity. Qed.
Lemma eqo_out a b : eqo a b -> s_out a = s_out b. Proof. intros H. apply (f_equal s_out) in H. exact H. Qed.
Lemma eqo_ev a b : eqo a b -> s_ev a = s_ev b. Proof. intros H. apply (f_equal s_ev) in H. exact H. Qed.
Lemma eqo_sent a b : eqo a b -> s_sent a = s_sent b. Proof. intros H. apply (f_equal s_sent) in H. exact H. Qed.
Lemma eqo_recv a b : eqo a b -> s_recv a = s_recv b. Proof. intros H. apply (f_equal s_recv) in H. exact H. Qed.
Lemma eqo_ev_cong a b e : eqo a b -> eqo (ev a e) (ev b e).
Proof. unfold eqo. intros H. change (ev (set_in a []) e = ev (set_in b []) e). rewrite H. reflexivity. Qed.

(* s2 has written and recorded at least what s1 has (logs are kept reversed) *)
Definition grows (s1 s2 : sess) : Prop :=
  pre (s_out s1) (s_out s2) /\ pre (s_ev s1) (s_ev s2) /\
  pre (s_sent s1) (s_sent s2) /\ pre (s_recv s1) (s_recv s2).

Lemma grows_refl s : grows s s.
Proof. repeat split; apply pre_refl. Qed.
Lemma grows_trans a b c : grows a b -> grows b c -> grows a c.
Proof. intros (A1&A2&A3&A4) (B1&B2&B3&B4). repeat split; eapply pre_trans; eassumption. Qed.
Lemma grows_eqo a b : eqo a b -> grows a b.
Proof.
  intros H. unfold grows. rewrite (eqo_out _ _ H), (eqo_ev _ _ H), (eqo_sent _ _ H), (eqo_recv _ _ H).
  repeat split; apply pre_refl.
Qed.
Lemma grows_wr a s b : grows a s -> grows a (wr s b).
Proof. intros (A1&A2&A3&A4). repeat split; cbn [wr s_out s_ev s_sent s_recv]; try assumption. apply pre_cons, A1. Qed.
Lemma grows_ev a s e : grows a s -> grows a (ev s e).
Proof. intros (A1&A2&A3&A4). repeat split; cbn [ev s_out s_ev s_sent s_recv]; try assumption. apply pre_cons, A2. Qed.
Lemma grows_add_sent a s m : grows a s -> grows a (add_sent s m).
Proof. intros (A1&A2&A3&A4). repeat split; cbn [add_sent s_out s_ev s_sent s_recv]; try assumption. apply pre_cons, A3. Qed.
Lemma grows_add_recv a s m : grows a s -> grows a (add_recv s m).
Proof. intros (A1&A2&A3&A4). repeat split; cbn [add_recv s_out s_ev s_sent s_recv]; try assumption. apply pre_cons, A4. Qed.
Lemma grows_set_in a s i : grows a s -> grows a (set_in s i).
Proof. intros H. exact H. Qed.
Lemma grows_ext a s i : grows a s -> grows a (ext i s).
Proof. intros H. exact H. Qed.
Lemma grows_mark_gone a s m : grows a s -> grows a (mark_gone s m).
Proof. intros H. exact H. Qed.
Lemma grows_set_nomsgs a s b : grows a s -> grows a (set_nomsgs s b).
Proof. intros H. exact H. Qed.

Ltac gr :=
  repeat first [ assumption | apply grows_refl | solve [apply grows_eqo; reflexivity] | apply grows_wr | apply grows_ev | apply grows_add_sent
               | apply grows_add_recv | apply grows_set_in | apply grows_ext | apply grows_mark_gone
               | apply grows_set_nomsgs ].

Lemma grows_fold_wr {B} (f : B -> bytes) l : forall a s, grows a s -> grows a (fold_left (fun acc x => wr acc (f x)) l s).
Proof. induction l as [|x l IH]; intros a s H; cbn [fold_left]; [exact H|]. apply IH. gr. Qed.

(* the state s1 in which a run stopped because the link was lost, against a state s2 of a run
   that received more: everything is kept, except that the EvBlockEnd that closes the failed
   turn of s1 may have come later in s2 *)
Definition lost (s1 s2 : sess) : Prop :=
  pre (s_out s1) (s_out s2) /\
  (pre (s_ev s1) (s_ev s2) \/ exists e0, s_ev s1 = EvBlockEnd :: e0 /\ pre e0 (s_ev s2)) /\
  pre (s_sent s1) (s_sent s2) /\ pre (s_recv s1) (s_recv s2).

Lemma grows_lost a b : grows a b -> lost a b.
Proof. intros (A1&A2&A3&A4). repeat split; auto. Qed.
Lemma lost_grows a b c : lost a b -> grows b c -> lost a c.
Proof.
  intros (A1&A2&A3&A4) (B1&B2&B3&B4). repeat split; try (eapply pre_trans; eassumption).
  destruct A2 as [A2|(e0&E&A2)]; [left|right; exists e0; split; [exact E|]]; eapply pre_trans; eassumption.
Qed.
Lemma eqo_lost a a' b : eqo a a' -> lost a b -> lost a' b.
Proof.
  intros H. unfold lost. rewrite (eqo_out _ _ H), (eqo_ev _ _ H), (eqo_sent _ _ H), (eqo_recv _ _ H). tauto.
Qed.

(* ---------- results ---------- *)
Definition res_lost {A} (s1 : sess) (r2 : res sess (A * sess)) : Prop :=
  match r2 with ROk (_, s2) => lost s1 s2 | RFail _ s2 => lost s1 s2 | RPanic => True end.

Definition res_grows {A} (s : sess) (r : res sess (A * sess)) : Prop :=
  match r with ROk (_, s') => grows s s' | RFail _ s' => grows s s' | RPanic => True end.

(* r1: the result on the shorter input, from state s; r2: the result from [ext i2 s] *)
Definition relx {A} (i2 : bytes) (s : sess) (r1 r2 : res sess (A * sess)) : Prop :=
  match r1 with
  | ROk (a, s1) => r2 = ROk (a, ext i2 s1) /\ sfx (s_in s1) (s_in s)
  | RFail EOther s1 => exists s2, r2 = RFail EOther s2 /\ eqo s1 s2
  | RFail EConnLost s1 => res_lost s1 r2
  | RPanic => r2 = RPanic
  end.
Definition rel {A} (i2 : bytes) (s : sess) (r1 r2 : res sess (A * sess)) : Prop :=
  ends_eot (s_in s) \/ relx i2 s r1 r2.

Lemma rel_lift {A} i2 s s1 (r1 r2 : res sess (A * sess)) :
  sfx (s_in s1) (s_in s) -> rel i2 s1 r1 r2 -> rel i2 s r1 r2.
Proof.
  intros Hs [H|H]; [left; eapply ends_eot_sfx; eassumption|right].
  destruct r1 as [[a s']|[|] s'|]; try exact H.
  destruct H as [H1 H2]. split; [exact H1|]. eapply sfx_trans; eassumption.
Qed.

Lemma res_lost_grows {A} s1 s2 (r : res sess (A * sess)) : lost s1 s2 -> res_grows s2 r -> res_lost s1 r.
Proof. intros H G. destruct r as [[a s']|e s'|]; cbn in *; try exact I; eapply lost_grows; eassumption. Qed.

(* ================================================================================== *)
(* 2. Lines                                                                           *)
(* ================================================================================== *)
Lemma next_line_grows pe s : res_grows s (next_line pe s).
Proof.
  unfold next_line. destruct (read_until 13 (s_in s)) as [[raw rest]|]; [|cbn; gr].
  destruct (pe && err_line (clean_string raw)); cbn; gr.
Qed.

Lemma next_line_extx pe i2 s : relx i2 s (next_line pe s) (next_line pe (ext i2 s)).
Proof.
  unfold relx, next_line. cbn [ext set_in s_in].
  destruct (read_until 13 (s_in s)) as [[raw rest]|] eqn:E.
  - rewrite (read_until_app _ _ i2 _ _ E).
    destruct (pe && err_line (clean_string raw)).
    + eexists; split; [reflexivity|]. reflexivity.
    + split; [reflexivity|]. cbn [set_in s_in]. eapply read_until_sfx; exact E.
  - eapply res_lost_grows; [|apply (next_line_grows pe (set_in s (s_in s ++ i2)))].
    apply grows_lost. gr.
Qed.

Lemma next_line_ext pe i2 s : rel i2 s (next_line pe s) (next_line pe (ext i2 s)).
Proof. right. apply next_line_extx. Qed.

(* ---------- functions that only read: every state they return differs from the initial one
   only in the remaining input ---------- *)
Definition res_eqo {A} (s : sess) (r : res sess (A * sess)) : Prop :=
  match r with ROk (_, s') => eqo s s' | RFail _ s' => eqo s s' | RPanic => True end.

Lemma res_eqo_grows {A} s (r : res sess (A * sess)) : res_eqo s r -> res_grows s r.
Proof. destruct r as [[a s']|e s'|]; cbn; auto using grows_eqo. Qed.

Lemma res_grows_trans {A} s s1 (r : res sess (A * sess)) : grows s s1 -> res_grows s1 r -> res_grows s r.
Proof. intros G. destruct r as [[a s']|e s'|]; cbn; auto; intros; eapply grows_trans; eassumption. Qed.

Lemma res_eqo_trans {A} s s1 (r : res sess (A * sess)) : eqo s s1 -> res_eqo s1 r -> res_eqo s r.
Proof. intros G. destruct r as [[a s']|e s'|]; cbn; auto; intros; eapply eqo_trans; eassumption. Qed.

(* relx without the clause for a lost link *)
Definition rel0 {A} (i2 : bytes) (s : sess) (r1 r2 : res sess (A * sess)) : Prop :=
  match r1 with
  | ROk (a, s1) => r2 = ROk (a, ext i2 s1) /\ sfx (s_in s1) (s_in s)
  | RFail EOther s1 => exists s2, r2 = RFail EOther s2 /\ eqo s1 s2
  | RFail EConnLost s1 => True
  | RPanic => r2 = RPanic
  end.

Lemma rel0_lift {A} i2 s s1 (r1 r2 : res sess (A * sess)) :
  sfx (s_in s1) (s_in s) -> rel0 i2 s1 r1 r2 -> rel0 i2 s r1 r2.
Proof.
  intros Hs H. destruct r1 as [[a s']|[|] s'|]; try exact H.
  destruct H as [H1 H2]. split; [exact H1|]. eapply sfx_trans; eassumption.
Qed.

Lemma relx_of_rel0 {A} i2 s (r1 r2 : res sess (A * sess)) :
  rel0 i2 s r1 r2 -> (forall s1, r1 = RFail EConnLost s1 -> res_lost s1 r2) -> relx i2 s r1 r2.
Proof.
  intros H L. destruct r1 as [[a s']|[|] s'|]; try exact H. apply L. reflexivity.
Qed.

Lemma relx_lift {A} i2 s s1 (r1 r2 : res sess (A * sess)) :
  sfx (s_in s1) (s_in s) -> relx i2 s1 r1 r2 -> relx i2 s r1 r2.
Proof.
  intros Hs H. destruct r1 as [[a s']|[|] s'|]; try exact H.
  destruct H as [H1 H2]. split; [exact H1|]. eapply sfx_trans; eassumption.
Qed.

Lemma readonly_lost {A} i2 s (r1 r2 : res sess (A * sess)) s1 :
  res_eqo s r1 -> res_eqo (ext i2 s) r2 -> r1 = RFail EConnLost s1 -> res_lost s1 r2.
Proof.
  intros H1 H2 ->. cbn in H1.
  eapply res_lost_grows; [|apply res_eqo_grows; exact H2].
  apply grows_lost, grows_eqo. apply eqo_sym. exact H1.
Qed.

Lemma next_line_eqo pe s : res_eqo s (next_line pe s).
Proof.
  unfold next_line. destruct (read_until 13 (s_in s)) as [[raw rest]|]; [|cbn; reflexivity].
  destruct (pe && err_line (clean_string raw)); cbn; reflexivity.
Qed.

(* ================================================================================== *)
(* 3. Handshake                                                                       *)
(* ================================================================================== *)
Lemma read_handshake_eqo fuel : forall s d, res_eqo s (read_handshake fuel s d).
Proof.
  induction fuel as [|f IH]; intros s d; cbn [read_handshake]; [reflexivity|].
  destruct (s_in s) as [|b r]; [reflexivity|].
  destruct ((b =? 70) && s_master s); [reflexivity|].
  pose proof (next_line_eqo false s) as Hn.
  destruct (next_line false s) as [[line s1]|e s1|]; cbn [res_eqo] in Hn; [|exact Hn|exact I].
  assert (R : forall d', res_eqo s (read_handshake f s1 d')) by (intros d'; eapply res_eqo_trans; [exact Hn|apply IH]).
  destruct (prefixb [91] line && suffixb [93] line).
  { destruct (parse_sid line); [|exact Hn]. destruct (containsb sFBComp2 b0); [apply R|exact Hn]. }
  destruct (prefixb str_FWp line).
  { destruct (prefixb str_FWfull line); [apply R|exact Hn]. }
  destruct (prefixb str_PQ line).
  { destruct (length line <? 5)%nat; [exact Hn|]. destruct (slice_from 5 line); [apply R|exact I]. }
  destruct (suffixb [62] line); [exact Hn|apply R].
Qed.

Lemma read_handshake_ext0 i2 : forall f1 f2 s d, (inlen s < f1)%nat -> (inlen s + length i2 < f2)%nat ->
  rel0 i2 s (read_handshake f1 s d) (read_handshake f2 (ext i2 s) d).
Proof.
  induction f1 as [|f1 IH]; intros f2 s d H1 H2; [lia|]. destruct f2 as [|f2]; [lia|].
  cbn [read_handshake]. change (s_in (ext i2 s)) with (s_in s ++ i2).
  change (s_master (ext i2 s)) with (s_master s). unfold inlen in *.
  pose proof (next_line_extx false i2 s) as Hn. unfold relx in Hn.
  pose proof (TermP.next_line_ok false s) as Ht.
  destruct (s_in s) as [|b r] eqn:Ein; [exact I|]. cbn [app].
  destruct ((b =? 70) && s_master s).
  { split; [reflexivity|rewrite Ein; apply sfx_refl]. }
  destruct (next_line false s) as [[line s1]|[|] s1|] eqn:En.
  - destruct Hn as [Hn Hs]. rewrite Hn. rewrite <- Ein in Hs.
    specialize (Ht _ _ eq_refl). unfold inlen in Ht. rewrite Ein in Ht.
    assert (R : forall d', rel0 i2 s (read_handshake f1 s1 d') (read_handshake f2 (ext i2 s1) d')).
    { intros d'. eapply rel0_lift; [exact Hs|]. apply IH; unfold inlen; cbn [length] in *; lia. }
    assert (Fo : @rel0 hsdata i2 s (RFail EOther s1) (RFail EOther (ext i2 s1))).
    { eexists; split; [reflexivity|apply eqo_ext]. }
    destruct (prefixb [91] line && suffixb [93] line).
    { destruct (parse_sid line); [|exact Fo]. destruct (containsb sFBComp2 b0); [apply R|exact Fo]. }
    destruct (prefixb str_FWp line).
    { destruct (prefixb str_FWfull line); [apply R|exact Fo]. }
    destruct (prefixb str_PQ line).
    { destruct (length line <? 5)%nat; [exact Fo|]. destruct (slice_from 5 line); [apply R|reflexivity]. }
    destruct (suffixb [62] line); [|apply R]. split; [reflexivity|exact Hs].
  - exact I.
  - destruct Hn as (s2&Hn&He). rewrite Hn. exists s2. split; [reflexivity|exact He].
  - rewrite Hn. reflexivity.
Qed.

Lemma read_handshake_ext i2 f1 f2 s d : (inlen s < f1)%nat -> (inlen s + length i2 < f2)%nat ->
  relx i2 s (read_handshake f1 s d) (read_handshake f2 (ext i2 s) d).
Proof.
  intros H1 H2. apply relx_of_rel0; [apply read_handshake_ext0; assumption|].
  intros s1 E. eapply readonly_lost; [| |exact E]; apply read_handshake_eqo.
Qed.

Definition lift1 (r : res sess sess) : res sess (unit * sess) :=
  match r with ROk s => ROk (tt, s) | RFail e s => RFail e s | RPanic => RPanic end.

Lemma fold_wr_ext {B} (f : B -> bytes) i2 l : forall s,
  fold_left (fun acc x => wr acc (f x)) l (ext i2 s) = ext i2 (fold_left (fun acc x => wr acc (f x)) l s).
Proof. induction l as [|x l IH]; intros s; cbn [fold_left]; [reflexivity|]. apply (IH (wr s (f x))). Qed.

Lemma fold_wr_in {B} (f : B -> bytes) l : forall s, s_in (fold_left (fun acc x => wr acc (f x)) l s) = s_in s.
Proof. induction l as [|x l IH]; intros s; cbn [fold_left]; [reflexivity|]. rewrite IH. reflexivity. Qed.

Lemma handshake_grows s : res_grows s (lift1 (handshake s)).
Proof.
  unfold handshake, do_send_handshake. cbv zeta. destruct (s_master s).
  - set (s1 := fold_left (fun acc l => wr acc (l ++ [13])) (s_motd s) s).
    assert (G1 : grows s s1) by (apply (grows_fold_wr (fun l => l ++ [13])); gr).
    destruct (send_handshake (s_cfg s1) []) as [b|]; [|exact G1].
    match goal with |- context [read_handshake ?f ?s2 ?d] =>
      pose proof (read_handshake_eqo f s2 d) as Hr; destruct (read_handshake f s2 d) as [[d1 s3]|e s3|] end;
      cbn [res_eqo] in Hr; [|cbn|exact I].
    + assert (G : grows s s3) by (eapply grows_trans; [|apply grows_eqo; exact Hr]; gr).
      destruct (hd_have_sid d1 && negb (beq_bytes (hd_sid d1) [])); exact G.
    + eapply grows_trans; [|apply grows_eqo; exact Hr]; gr.
  - match goal with |- context [read_handshake ?f ?s2 ?d] =>
      pose proof (read_handshake_eqo f s2 d) as Hr; destruct (read_handshake f s2 d) as [[d1 s3]|e s3|] end;
      cbn [res_eqo] in Hr; [|cbn; apply grows_eqo; exact Hr|exact I].
    apply grows_eqo in Hr.
    destruct (hd_have_sid d1 && negb (beq_bytes (hd_sid d1) [])); [|exact Hr].
    destruct (send_handshake (s_cfg s3) (hd_challenge d1)); cbn; gr.
Qed.

Lemma handshake_extx i2 s : relx i2 s (lift1 (handshake s)) (lift1 (handshake (ext i2 s))).
Proof.
  unfold handshake, do_send_handshake. cbv zeta.
  change (s_master (ext i2 s)) with (s_master s). change (s_in (ext i2 s)) with (s_in s ++ i2).
  change (s_motd (ext i2 s)) with (s_motd s). destruct (s_master s).
  - rewrite (fold_wr_ext (fun l => l ++ [13])).
    pose proof (fold_wr_in (fun l => l ++ [13]) (s_motd s) s) as Ein. cbv beta in Ein.
    set (s1 := fold_left (fun acc l => wr acc (l ++ [13])) (s_motd s) s) in *.
    change (s_cfg (ext i2 s1)) with (s_cfg s1).
    destruct (send_handshake (s_cfg s1) []) as [b|].
    2:{ cbn. eexists; split; [reflexivity|apply eqo_ext]. }
    change (wr (ext i2 s1) b) with (ext i2 (wr s1 b)).
    set (d0 := {| hd_sid := []; hd_have_sid := false; hd_challenge := [] |}).
    assert (Hs : sfx (s_in (wr s1 b)) (s_in s)) by (cbn [wr s_in]; rewrite Ein; apply sfx_refl).
    assert (H : relx i2 s (read_handshake (S (length (s_in s))) (wr s1 b) d0)
                          (read_handshake (S (length (s_in s ++ i2))) (ext i2 (wr s1 b)) d0)).
    { apply (relx_lift i2 s (wr s1 b)); [exact Hs|].
      apply read_handshake_ext; unfold inlen; cbn [wr s_in]; rewrite ?Ein, ?app_length; lia. }
    unfold relx in H.
    destruct (read_handshake (S (length (s_in s))) (wr s1 b) d0) as [[d1 s3]|[|] s3|].
    + destruct H as [H Hs3]. rewrite H.
      destruct (hd_have_sid d1 && negb (beq_bytes (hd_sid d1) [])); cbn.
      * split; [reflexivity|exact Hs3].
      * eexists; split; [reflexivity|apply eqo_ext].
    + cbn [lift1 relx] in *. destruct (read_handshake _ (ext i2 (wr s1 b)) d0) as [[d2 s4]|e s4|]; cbn [lift1 res_lost] in *; [|exact H|exact I].
      destruct (hd_have_sid d2 && negb (beq_bytes (hd_sid d2) [])); exact H.
    + destruct H as (s2&H&He). rewrite H. cbn. exists s2. split; [reflexivity|exact He].
    + rewrite H. reflexivity.
  - set (d0 := {| hd_sid := []; hd_have_sid := false; hd_challenge := [] |}).
    assert (H : relx i2 s (read_handshake (S (length (s_in s))) s d0)
                          (read_handshake (S (length (s_in s ++ i2))) (ext i2 s) d0)).
    { apply read_handshake_ext; unfold inlen; rewrite ?app_length; lia. }
    unfold relx in H.
    destruct (read_handshake (S (length (s_in s))) s d0) as [[d1 s3]|[|] s3|].
    + destruct H as [H Hs3]. rewrite H.
      destruct (hd_have_sid d1 && negb (beq_bytes (hd_sid d1) [])).
      * change (s_cfg (ext i2 s3)) with (s_cfg s3).
        destruct (send_handshake (s_cfg s3) (hd_challenge d1)); cbn.
        -- split; [reflexivity|exact Hs3].
        -- eexists; split; [reflexivity|apply eqo_ext].
      * cbn. eexists; split; [reflexivity|apply eqo_ext].
    + cbn [lift1 relx] in *. destruct (read_handshake _ (ext i2 s) d0) as [[d2 s4]|e s4|]; cbn [lift1 res_lost] in *; [|exact H|exact I].
      destruct (hd_have_sid d2 && negb (beq_bytes (hd_sid d2) [])).
      * destruct (send_handshake (s_cfg s4) (hd_challenge d2)); cbn; [|exact H].
        eapply lost_grows; [exact H|gr].
      * exact H.
    + destruct H as (s2&H&He). rewrite H. cbn. exists s2. split; [reflexivity|exact He].
    + rewrite H. reflexivity.
Qed.

(* ================================================================================== *)
(* 4. My turn: handle_outbound in phases                                              *)
(* ================================================================================== *)
Definition mark_rej (sent : list (bytes * bool)) (s : sess) : sess :=
  fold_left (fun acc (mr : bytes * bool) =>
               if snd mr then ev (mark_gone acc (fst mr)) (EvSetSent (fst mr) true) else acc) sent s.
Definition mark_sent (sent : list (bytes * bool)) (s : sess) : sess :=
  fold_left (fun acc (mr : bytes * bool) =>
               if snd mr then acc
               else add_sent (ev (mark_gone acc (fst mr)) (EvSetSent (fst mr) false)) (fst mr)) sent s.

(* after the transfers: the rejected ones are marked, then the session PEEKS at the next byte *)
Definition ho_peek (sent : list (bytes * bool)) (s4 : sess) : res sess (bool * sess) :=
  let s5 := mark_rej sent s4 in
  match s_in s5 with
  | [] => RFail EConnLost (ev s5 EvBlockEnd)
  | b :: _ =>
      if negb ((b =? 70) || (b =? 59)) then
        match next_line true s5 with
        | ROk (_, s') => RFail EOther (ev s' EvBlockEnd)
        | RFail e s' => RFail e (ev s' EvBlockEnd)
        | RPanic => RPanic
        end
      else ROk (false, ev (mark_sent sent s5) EvBlockEnd)
  end.

(* from the FS reply on *)
Definition ho_transfer (block : list oprop) (reply : bytes) (s3 : sess) : res sess (bool * sess) :=
  match slice_from 3 reply with
  | None => RPanic
  | Some astr =>
      match parse_answers (S (length astr)) astr (length block) [] with
      | None => RFail EOther s3
      | Some ans =>
          match send_accepted s3 block ans [] with
          | RFail e s' => RFail e s'
          | RPanic => RPanic
          | ROk (s4, sent_rev) => ho_peek (rev' sent_rev) s4
          end
      end
  end.

(* the proposal block: one line per proposal, then the checksum line *)
Definition ho_propose (block : list oprop) (s0 : sess) : sess :=
  let lines := map proposal_line block in
  wr (fold_left (fun acc l => wr acc (l ++ [13])) lines s0)
     ([70; 62; 32] ++ fmt_02X (block_checksum lines) ++ [13]).

Lemma handle_outbound_eq s :
  handle_outbound s =
  let '(props, s0) := outbound s in
  match props with
  | [] => let q := s_remote_nomsgs s0 in ROk (q, wr s0 (if q then [70; 81; 13] else [70; 70; 13]))
  | _ => let block := firstn (N.to_nat MaxBlockSize) props in
         let s2 := ho_propose block s0 in
         match read_reply (S (length (s_in s2))) s2 with
         | RFail e s' => RFail e s'
         | RPanic => RPanic
         | ROk (reply, s3) => ho_transfer block reply s3
         end
  end.
Proof. unfold handle_outbound. destruct (outbound s) as [props s0]. destruct props; reflexivity. Qed.

(* ---------- marks ---------- *)
Lemma mark_rej_ext i2 sent : forall s, mark_rej sent (ext i2 s) = ext i2 (mark_rej sent s).
Proof.
  unfold mark_rej. induction sent as [|mr l IH]; intros s; cbn [fold_left]; [reflexivity|].
  destruct (snd mr); [|apply IH]. apply (IH (ev (mark_gone s (fst mr)) (EvSetSent (fst mr) true))).
Qed.
Lemma mark_sent_ext i2 sent : forall s, mark_sent sent (ext i2 s) = ext i2 (mark_sent sent s).
Proof.
  unfold mark_sent. induction sent as [|mr l IH]; intros s; cbn [fold_left]; [reflexivity|].
  destruct (snd mr); [apply IH|].
  apply (IH (add_sent (ev (mark_gone s (fst mr)) (EvSetSent (fst mr) false)) (fst mr))).
Qed.
Lemma mark_rej_in sent : forall s, s_in (mark_rej sent s) = s_in s.
Proof.
  unfold mark_rej. induction sent as [|mr l IH]; intros s; cbn [fold_left]; [reflexivity|].
  rewrite IH. destruct (snd mr); reflexivity.
Qed.
Lemma mark_sent_in sent : forall s, s_in (mark_sent sent s) = s_in s.
Proof.
  unfold mark_sent. induction sent as [|mr l IH]; intros s; cbn [fold_left]; [reflexivity|].
  rewrite IH. destruct (snd mr); reflexivity.
Qed.
Lemma mark_rej_grows sent : forall a s, grows a s -> grows a (mark_rej sent s).
Proof.
  unfold mark_rej. induction sent as [|mr l IH]; intros a s H; cbn [fold_left]; [exact H|].
  apply IH. destruct (snd mr); gr.
Qed.
Lemma mark_sent_grows sent : forall a s, grows a s -> grows a (mark_sent sent s).
Proof.
  unfold mark_sent. induction sent as [|mr l IH]; intros a s H; cbn [fold_left]; [exact H|].
  apply IH. destruct (snd mr); gr.
Qed.

(* ---------- transfers: they do not look at the input ---------- *)
Lemma write_compressed_ext i2 s p off :
  write_compressed (ext i2 s) p off =
  match write_compressed s p off with ROk s' => ROk (ext i2 s') | RFail e s' => RFail e (ext i2 s') | RPanic => RPanic end.
Proof.
  unfold write_compressed. destruct ((off <? 0)%Z || (Z.of_nat (length (o_cdata p)) <? off)%Z); [reflexivity|].
  cbv zeta. destruct (Z.of_nat (length (o_cdata p)) <? 6)%Z; reflexivity.
Qed.

Lemma write_compressed_facts s p off :
  match write_compressed s p off with
  | ROk s' => s_in s' = s_in s /\ grows s s'
  | RFail e s' => e = EOther /\ s_in s' = s_in s /\ grows s s'
  | RPanic => False
  end.
Proof.
  unfold write_compressed. destruct ((off <? 0)%Z || (Z.of_nat (length (o_cdata p)) <? off)%Z).
  { repeat split; gr. }
  cbv zeta. destruct (Z.of_nat (length (o_cdata p)) <? 6)%Z; repeat split; gr.
Qed.

Lemma send_accepted_ext i2 props : forall s ans sent,
  send_accepted (ext i2 s) props ans sent =
  match send_accepted s props ans sent with
  | ROk (s', l) => ROk (ext i2 s', l) | RFail e s' => RFail e (ext i2 s') | RPanic => RPanic end.
Proof.
  induction props as [|p ps IH]; intros s ans sent; cbn [send_accepted]; [reflexivity|].
  destruct ans as [|a r]; cbn zeta iota beta; [apply IH|].
  destruct a as [|[| |] off]; try apply IH.
  - rewrite write_compressed_ext. destruct (write_compressed s p off) as [s1|e s1|]; [apply IH|reflexivity..].
  - apply (IH (ev (mark_gone s (o_mid p)) (EvSetDeferred (o_mid p)))).
Qed.

Lemma send_accepted_facts props : forall s ans sent,
  match send_accepted s props ans sent with
  | ROk (s', _) => s_in s' = s_in s /\ grows s s'
  | RFail e s' => e = EOther /\ s_in s' = s_in s /\ grows s s'
  | RPanic => False
  end.
Proof.
  induction props as [|p ps IH]; intros s ans sent; cbn [send_accepted]; [repeat split; gr|].
  destruct ans as [|a r]; cbn zeta iota beta; [apply IH|].
  destruct a as [|[| |] off]; try apply IH.
  - pose proof (write_compressed_facts s p off) as Hw.
    destruct (write_compressed s p off) as [s1|e s1|]; [|exact Hw|exact Hw].
    destruct Hw as [Hi Hg]. specialize (IH s1 r ((o_mid p, false) :: sent)).
    destruct (send_accepted s1 ps r ((o_mid p, false) :: sent)) as [[s' l]|e s'|]; [| |exact IH].
    + destruct IH as [I1 I2]. split; [congruence|eapply grows_trans; eassumption].
    + destruct IH as (I0&I1&I2). split; [exact I0|split; [congruence|eapply grows_trans; eassumption]].
  - specialize (IH (ev (mark_gone s (o_mid p)) (EvSetDeferred (o_mid p))) r sent).
    destruct (send_accepted _ ps r sent) as [[s' l]|e s'|]; [| |exact IH].
    + destruct IH as [I1 I2]. split; [exact I1|]. eapply grows_trans; [|exact I2]. gr.
    + destruct IH as (I0&I1&I2). split; [exact I0|split; [exact I1|]]. eapply grows_trans; [|exact I2]. gr.
Qed.

(* ---------- the reply ---------- *)
Lemma read_reply_eqo fuel : forall s, res_eqo s (read_reply fuel s).
Proof.
  induction fuel as [|f IH]; intros s; cbn [read_reply]; [reflexivity|].
  pose proof (next_line_eqo true s) as Hn.
  destruct (next_line true s) as [[line s1]|e s1|]; cbn [res_eqo] in Hn; [|exact Hn|exact I].
  destruct (prefixb [70; 83; 32] line); [exact Hn|].
  destruct (prefixb [59] line); [|exact Hn]. eapply res_eqo_trans; [exact Hn|apply IH].
Qed.

Lemma read_reply_ext0 i2 : forall f1 f2 s, (inlen s < f1)%nat -> (inlen s + length i2 < f2)%nat ->
  rel0 i2 s (read_reply f1 s) (read_reply f2 (ext i2 s)).
Proof.
  induction f1 as [|f1 IH]; intros f2 s H1 H2; [lia|]. destruct f2 as [|f2]; [lia|].
  cbn [read_reply].
  pose proof (next_line_extx true i2 s) as Hn. unfold relx in Hn.
  pose proof (TermP.next_line_ok true s) as Ht.
  destruct (next_line true s) as [[line s1]|[|] s1|] eqn:En.
  - destruct Hn as [Hn Hs]. rewrite Hn.
    specialize (Ht _ _ eq_refl).
    destruct (prefixb [70; 83; 32] line); [split; [reflexivity|exact Hs]|].
    destruct (prefixb [59] line).
    + eapply rel0_lift; [exact Hs|]. apply IH; unfold inlen in *; cbn [ext set_in s_in]; rewrite ?app_length; lia.
    + eexists; split; [reflexivity|apply eqo_ext].
  - exact I.
  - destruct Hn as (s2&Hn&He). rewrite Hn. exists s2. split; [reflexivity|exact He].
  - rewrite Hn. reflexivity.
Qed.

Lemma read_reply_ext i2 f1 f2 s : (inlen s < f1)%nat -> (inlen s + length i2 < f2)%nat ->
  relx i2 s (read_reply f1 s) (read_reply f2 (ext i2 s)).
Proof.
  intros H1 H2. apply relx_of_rel0; [apply read_reply_ext0; assumption|].
  intros s1 E. eapply readonly_lost; [| |exact E]; apply read_reply_eqo.
Qed.

(* ---------- the peek ---------- *)
Lemma ho_peek_grows sent s4 : res_grows s4 (ho_peek sent s4).
Proof.
  unfold ho_peek. cbv zeta.
  assert (G : grows s4 (mark_rej sent s4)) by (apply mark_rej_grows; gr).
  destruct (s_in (mark_rej sent s4)) as [|b r]; [cbn; gr|].
  destruct (negb ((b =? 70) || (b =? 59))).
  - pose proof (next_line_eqo true (mark_rej sent s4)) as Hn.
    destruct (next_line true (mark_rej sent s4)) as [[l s']|e s'|]; cbn in *; try exact I;
      apply grows_ev; (eapply grows_trans; [exact G|apply grows_eqo; exact Hn]).
  - cbn. apply grows_ev, mark_sent_grows. exact G.
Qed.

Lemma lost_blockend s5 s6 : grows s5 s6 -> lost (ev s5 EvBlockEnd) s6.
Proof.
  intros (A1&A2&A3&A4). split; [exact A1|]. split; [|split; assumption].
  right. exists (s_ev s5). split; [reflexivity|exact A2].
Qed.

Lemma ho_peek_extx i2 sent s4 : relx i2 s4 (ho_peek sent s4) (ho_peek sent (ext i2 s4)).
Proof.
  unfold relx, ho_peek. cbv zeta. rewrite mark_rej_ext.
  pose proof (mark_rej_in sent s4) as Ein.
  set (s5 := mark_rej sent s4) in *. change (s_in (ext i2 s5)) with (s_in s5 ++ i2).
  pose proof (next_line_extx true i2 s5) as Hn. unfold relx in Hn.
  pose proof (next_line_eqo true s5) as Q1. pose proof (next_line_eqo true (ext i2 s5)) as Q2.
  destruct (s_in s5) as [|b r] eqn:E5.
  - (* the link is lost at the peek *)
    cbn [app]. destruct i2 as [|c i2'].
    + cbn. apply grows_lost. gr.
    + destruct (negb ((c =? 70) || (c =? 59))).
      * destruct (next_line true (ext (c :: i2') s5)) as [[l s']|e s'|]; cbn in *; try exact I;
          apply grows_lost, grows_eqo, eqo_ev_cong; exact Q2.
      * cbn. apply lost_blockend. rewrite mark_sent_ext. apply grows_ev, grows_ext, mark_sent_grows. gr.
  - cbn [app]. destruct (negb ((b =? 70) || (b =? 59))).
    + destruct (next_line true s5) as [[l s']|[|] s'|].
      * destruct Hn as [Hn Hs]. rewrite Hn. eexists; split; reflexivity.
      * destruct (next_line true (ext i2 s5)) as [[l2 s2]|e2 s2|]; cbn in *; try exact I;
          apply grows_lost, grows_eqo, eqo_ev_cong; (eapply eqo_trans; [apply eqo_sym; exact Q1|exact Q2]).
      * destruct Hn as (s2&Hn&He).
        rewrite Hn. eexists; split; [reflexivity|apply eqo_ev_cong; exact He].
      * rewrite Hn. reflexivity.
    + rewrite mark_sent_ext. split; [reflexivity|]. cbn [ev s_in]. rewrite mark_sent_in, E5, <- Ein. apply sfx_refl.
Qed.

(* ---------- from the reply on ---------- *)
Lemma ho_transfer_grows block reply s3 : res_grows s3 (ho_transfer block reply s3).
Proof.
  unfold ho_transfer. destruct (slice_from 3 reply) as [astr|]; [|exact I].
  destruct (parse_answers _ astr _ []) as [ans|]; [|cbn; gr].
  pose proof (send_accepted_facts block s3 ans []) as Hs.
  destruct (send_accepted s3 block ans []) as [[s4 sr]|e s4|]; [|cbn; tauto|exact I].
  eapply res_grows_trans; [apply Hs|apply ho_peek_grows].
Qed.


Lemma ho_transfer_extx i2 block reply s3 :
  relx i2 s3 (ho_transfer block reply s3) (ho_transfer block reply (ext i2 s3)).
Proof.
  unfold ho_transfer. destruct (slice_from 3 reply) as [astr|]; [|reflexivity].
  destruct (parse_answers _ astr _ []) as [ans|]; [|cbn; eexists; split; [reflexivity|apply eqo_ext]].
  rewrite send_accepted_ext.
  pose proof (send_accepted_facts block s3 ans []) as Hs.
  destruct (send_accepted s3 block ans []) as [[s4 sr]|e s4|]; [| |reflexivity].
  - destruct Hs as [Hi Hg]. eapply relx_lift; [|apply ho_peek_extx]. rewrite Hi. apply sfx_refl.
  - destruct Hs as (->&Hi&Hg). cbn. eexists; split; [reflexivity|apply eqo_ext].
Qed.

(* ---------- the whole turn ---------- *)
Lemma outbound_ext i2 s : outbound (ext i2 s) = (fst (outbound s), ext i2 (snd (outbound s))).
Proof. unfold outbound. change (s_h (ext i2 s)) with (s_h s). destruct (h_present (s_h s)); reflexivity. Qed.

Lemma outbound_facts s : s_in (snd (outbound s)) = s_in s /\ grows s (snd (outbound s)).
Proof. unfold outbound. destruct (h_present (s_h s)); cbn [snd]; split; try reflexivity; gr. Qed.

Lemma ho_propose_ext i2 block s0 : ho_propose block (ext i2 s0) = ext i2 (ho_propose block s0).
Proof. unfold ho_propose. cbv zeta. rewrite (fold_wr_ext (fun l => l ++ [13])). reflexivity. Qed.

Lemma ho_propose_facts block s0 : s_in (ho_propose block s0) = s_in s0 /\ grows s0 (ho_propose block s0).
Proof.
  unfold ho_propose. cbv zeta. split.
  - cbn [wr s_in]. apply (fold_wr_in (fun l => l ++ [13])).
  - apply grows_wr, (grows_fold_wr (fun l => l ++ [13])). gr.
Qed.

Lemma handle_outbound_grows s : res_grows s (handle_outbound s).
Proof.
  rewrite handle_outbound_eq. destruct (outbound_facts s) as [_ G0].
  destruct (outbound s) as [props s0]. cbn [snd] in G0.
  destruct props as [|p ps]; [cbn; gr|]. cbv zeta.
  set (block := firstn _ _).
  destruct (ho_propose_facts block s0) as [_ G2].
  pose proof (read_reply_eqo (S (length (s_in (ho_propose block s0)))) (ho_propose block s0)) as Hr.
  destruct (read_reply _ (ho_propose block s0)) as [[reply s3]|e s3|]; cbn [res_eqo] in Hr; [| |exact I].
  - eapply res_grows_trans; [|apply ho_transfer_grows].
    eapply grows_trans; [exact G0|]. eapply grows_trans; [exact G2|]. apply grows_eqo, Hr.
  - cbn. eapply grows_trans; [exact G0|]. eapply grows_trans; [exact G2|]. apply grows_eqo, Hr.
Qed.

Lemma handle_outbound_extx i2 s : relx i2 s (handle_outbound s) (handle_outbound (ext i2 s)).
Proof.
  rewrite !handle_outbound_eq, outbound_ext. destruct (outbound_facts s) as [E0 G0].
  destruct (outbound s) as [props s0]. cbn [fst snd] in *.
  destruct props as [|p ps].
  { cbn. split; [reflexivity|]. rewrite E0. apply sfx_refl. }
  cbv zeta. set (block := firstn _ _). rewrite ho_propose_ext.
  destruct (ho_propose_facts block s0) as [E2 G2]. set (s2 := ho_propose block s0) in *.
  change (s_in (ext i2 s2)) with (s_in s2 ++ i2).
  assert (Hs2 : sfx (s_in s2) (s_in s)) by (rewrite E2, E0; apply sfx_refl).
  assert (Hx : relx i2 s2 (read_reply (S (length (s_in s2))) s2) (read_reply (S (length (s_in s2 ++ i2))) (ext i2 s2))).
  { apply read_reply_ext; unfold inlen; rewrite ?app_length; lia. }
  pose proof (read_reply_eqo (S (length (s_in s2 ++ i2))) (ext i2 s2)) as Q2.
  destruct (read_reply (S (length (s_in s2))) s2) as [[reply s3]|[|] s3|]; cbn [relx res_eqo] in *.
  - destruct Hx as [Hx Hs]. rewrite Hx. eapply relx_lift; [|apply ho_transfer_extx]. eapply sfx_trans; eassumption.
  - (* the link is lost while waiting for the reply *)
    destruct (read_reply _ (ext i2 s2)) as [[reply s3']|e s3'|]; cbn [res_lost res_eqo] in *; [|exact Hx|exact I].
    eapply res_lost_grows; [exact Hx|apply ho_transfer_grows].
  - destruct Hx as (s3'&Hx&He). rewrite Hx. exists s3'. split; [reflexivity|exact He].
  - rewrite Hx. reflexivity.
Qed.

(* ================================================================================== *)
(* 5. The peer's turn: proposals in                                                   *)
(* ================================================================================== *)
Definition ires := res sess (bool * list iprop * sess).
Inductive ilr := IlCont (props : list iprop) (lines : list bytes) | IlDone (r : ires).

(* what one line of the peer's turn does *)
Definition il_line (s1 : sess) (props : list iprop) (lines : list bytes) (line : bytes) : ilr :=
  if prefixb str_PM line then IlCont props lines
  else match line with
       | [] => IlCont props lines
       | c0 :: rest0 =>
           if c0 =? 59 then IlCont props lines
           else if (length line <? 2)%nat || negb (c0 =? 70) then IlDone (RFail EOther s1)
           else
             match rest0 with
             | [] => IlDone RPanic
             | c1 :: _ =>
                 if in_list c1 [65; 66; 67; 68] then
                   match parse_proposal s1 line with
                   | ROk p => IlCont (p :: props) (line :: lines)
                   | RFail e s' => IlDone (RFail e s')
                   | RPanic => IlDone RPanic
                   end
                 else if c1 =? 70 then IlDone (ROk (false, [], set_nomsgs s1 true))
                 else if c1 =? 81 then IlDone (ROk (true, [], s1))
                 else if c1 =? 62 then
                   match slice_from 2 line with
                   | None => IlDone RPanic
                   | Some ck =>
                       let ours := Z.of_N (block_checksum (rev' lines)) in
                       let theirs := parse_hex_ignore_err (trim_space ck) in
                       if negb (ours =? theirs)%Z then IlDone (RFail EOther s1)
                       else
                         match props with
                         | [] => IlDone (ROk (false, [], set_nomsgs s1 true))
                         | _ =>
                             let '(s2, answered) := answer_props (set_nomsgs s1 false) (rev' props) [] [] in
                             let s3 := wr s2 ([70; 83; 32] ++ map (fun p => answer_byte (i_answer p)) answered ++ [13]) in
                             IlDone (ROk (false, answered, s3))
                         end
                   end
                 else IlDone (RFail EOther s1)
             end
       end.

Lemma inbound_loop_eq f s props lines :
  inbound_loop (S f) s props lines =
  match next_line true s with
  | RFail e s' => RFail e s'
  | RPanic => RPanic
  | ROk (line, s1) =>
      match il_line s1 props lines line with
      | IlCont p l => inbound_loop f s1 p l
      | IlDone r => r
      end
  end.
Proof.
  cbn [inbound_loop]. destruct (next_line true s) as [[line s1]|e s1|]; try reflexivity.
  unfold il_line. destruct (prefixb str_PM line); [reflexivity|].
  destruct line as [|c0 rest0]; [reflexivity|].
  destruct (c0 =? 59) eqn:E59.
  { apply N.eqb_eq in E59. subst c0. reflexivity. }
  assert (Hm : forall A (a b : A), match c0 with 59 => a | _ => b end = b).
  { intros A a b. destruct c0 as [|p]; [reflexivity|].
    repeat (destruct p as [p|p|]; try reflexivity). discriminate. }
  rewrite Hm.
  destruct ((length (c0 :: rest0) <? 2)%nat || negb (c0 =? 70)); [reflexivity|].
  destruct rest0 as [|c1 r]; [reflexivity|].
  destruct (in_list c1 [65; 66; 67; 68]).
  { destruct (parse_proposal s1 (c0 :: c1 :: r)); reflexivity. }
  destruct (c1 =? 70); [reflexivity|]. destruct (c1 =? 81); [reflexivity|].
  destruct (c1 =? 62); [|reflexivity].
  destruct (slice_from 2 (c0 :: c1 :: r)) as [ck|]; [|reflexivity]. cbv zeta.
  destruct (negb _); [reflexivity|].
  destruct props; [reflexivity|].
  destruct (answer_props _ _ [] []). reflexivity.
Qed.

Lemma parse_proposal_ext i2 s line :
  parse_proposal (ext i2 s) line =
  match parse_proposal s line with ROk p => ROk p | RFail e s' => RFail e (ext i2 s') | RPanic => RPanic end.
Proof.
  unfold parse_proposal. destruct line as [|c0 [|code r]]; try reflexivity.
  destruct (negb (c0 =? 70)); [reflexivity|].
  destruct ((code =? BasicProposal) || (code =? AsciiProposal)); [reflexivity|].
  destruct ((code =? Wl2kProposal) || (code =? GzipProposal)); [|reflexivity].
  destruct (length (c0 :: code :: r) <? 4)%nat; [reflexivity|].
  destruct (slice_from 3 (c0 :: code :: r)) as [rest|]; [|reflexivity].
  destruct (split_on 32 rest) as [|t [|mid [|sz [|csz [|x [|y l]]]]]]; try reflexivity.
  destruct (type_ok t); reflexivity.
Qed.

Lemma parse_proposal_fail s line e s' : parse_proposal s line = RFail e s' -> e = EOther /\ s' = s.
Proof.
  unfold parse_proposal. destruct line as [|c0 [|code r]]; try (intros H; inversion H; auto; fail).
  destruct (negb (c0 =? 70)); [intros H; inversion H; auto|].
  destruct ((code =? BasicProposal) || (code =? AsciiProposal)); [discriminate|].
  destruct ((code =? Wl2kProposal) || (code =? GzipProposal)); [|intros H; inversion H; auto].
  destruct (length (c0 :: code :: r) <? 4)%nat; [intros H; inversion H; auto|].
  destruct (slice_from 3 (c0 :: code :: r)) as [rest|]; [|discriminate].
  destruct (split_on 32 rest) as [|t [|mid [|sz [|csz [|x [|y l]]]]]]; try (intros H; inversion H; auto; fail).
  destruct (type_ok t); [discriminate|intros H; inversion H; auto].
Qed.

Lemma answer_props_ext i2 props : forall s seen acc,
  answer_props (ext i2 s) props seen acc =
  (ext i2 (fst (answer_props s props seen acc)), snd (answer_props s props seen acc)).
Proof.
  induction props as [|p r IH]; intros s seen acc; cbn [answer_props]; [reflexivity|].
  change (s_h (ext i2 s)) with (s_h s).
  destruct (mem_bytes (i_mid p) seen || negb ((i_code p =? Wl2kProposal) || (i_code p =? GzipProposal))
            || negb (h_present (s_h s))); [apply IH|].
  apply (IH (ev s (EvAnswer (i_mid p) (policy_of (s_h s) (i_mid p))))).
Qed.

Lemma answer_props_facts props : forall s seen acc,
  s_in (fst (answer_props s props seen acc)) = s_in s /\ grows s (fst (answer_props s props seen acc)).
Proof.
  induction props as [|p r IH]; intros s seen acc; cbn [answer_props]; [split; [reflexivity|gr]|].
  destruct (mem_bytes (i_mid p) seen || negb ((i_code p =? Wl2kProposal) || (i_code p =? GzipProposal))
            || negb (h_present (s_h s))); [apply IH|].
  destruct (IH (ev s (EvAnswer (i_mid p) (policy_of (s_h s) (i_mid p)))) (i_mid p :: seen)
               (with_answer p (policy_of (s_h s) (i_mid p)) :: acc)) as [I1 I2].
  split; [exact I1|]. eapply grows_trans; [|exact I2]. gr.
Qed.

Definition imap (i2 : bytes) (r : ires) : ires :=
  match r with ROk (a, s') => ROk (a, ext i2 s') | RFail e s' => RFail e (ext i2 s') | RPanic => RPanic end.

Lemma il_line_ext i2 s1 props lines line :
  il_line (ext i2 s1) props lines line =
  match il_line s1 props lines line with IlCont p l => IlCont p l | IlDone r => IlDone (imap i2 r) end.
Proof.
  unfold il_line. destruct (prefixb str_PM line); [reflexivity|].
  destruct line as [|c0 rest0]; [reflexivity|].
  destruct (c0 =? 59); [reflexivity|].
  destruct ((length (c0 :: rest0) <? 2)%nat || negb (c0 =? 70)); [reflexivity|].
  destruct rest0 as [|c1 r]; [reflexivity|].
  destruct (in_list c1 [65; 66; 67; 68]).
  { rewrite parse_proposal_ext. destruct (parse_proposal s1 (c0 :: c1 :: r)); reflexivity. }
  destruct (c1 =? 70); [reflexivity|]. destruct (c1 =? 81); [reflexivity|].
  destruct (c1 =? 62); [|reflexivity].
  destruct (slice_from 2 (c0 :: c1 :: r)) as [ck|]; [|reflexivity]. cbv zeta.
  destruct (negb _); [reflexivity|].
  destruct props as [|p0 pr]; [reflexivity|].
  change (set_nomsgs (ext i2 s1) false) with (ext i2 (set_nomsgs s1 false)).
  rewrite answer_props_ext.
  destruct (answer_props (set_nomsgs s1 false) (rev' (p0 :: pr)) [] []) as [s2 answered]. reflexivity.
Qed.

Lemma il_line_facts s1 props lines line :
  match il_line s1 props lines line with
  | IlCont _ _ => True
  | IlDone (ROk (_, s')) => s_in s' = s_in s1 /\ grows s1 s'
  | IlDone (RFail e s') => e = EOther /\ s' = s1
  | IlDone RPanic => True
  end.
Proof.
  unfold il_line. destruct (prefixb str_PM line); [exact I|].
  destruct line as [|c0 rest0]; [exact I|].
  destruct (c0 =? 59); [exact I|].
  destruct ((length (c0 :: rest0) <? 2)%nat || negb (c0 =? 70)); [split; reflexivity|].
  destruct rest0 as [|c1 r]; [exact I|].
  destruct (in_list c1 [65; 66; 67; 68]).
  { pose proof (parse_proposal_fail s1 (c0 :: c1 :: r)) as Hp.
    destruct (parse_proposal s1 (c0 :: c1 :: r)) as [p|e s'|]; [exact I|apply Hp; reflexivity|exact I]. }
  destruct (c1 =? 70); [split; [reflexivity|gr]|]. destruct (c1 =? 81); [split; [reflexivity|gr]|].
  destruct (c1 =? 62); [|split; reflexivity].
  destruct (slice_from 2 (c0 :: c1 :: r)) as [ck|]; [|exact I]. cbv zeta.
  destruct (negb _); [split; reflexivity|].
  destruct props as [|p0 pr]; [split; [reflexivity|gr]|].
  destruct (answer_props_facts (rev' (p0 :: pr)) (set_nomsgs s1 false) [] []) as [I1 I2].
  destruct (answer_props (set_nomsgs s1 false) (rev' (p0 :: pr)) [] []) as [s2 answered]. cbn [fst] in *.
  split; [exact I1|]. apply grows_wr. eapply grows_trans; [|exact I2]. gr.
Qed.

Lemma inbound_loop_grows : forall f s props lines, res_grows s (inbound_loop f s props lines).
Proof.
  induction f as [|f IH]; intros s props lines; [cbn; gr|]. rewrite inbound_loop_eq.
  pose proof (next_line_eqo true s) as Hn.
  destruct (next_line true s) as [[line s1]|e s1|]; cbn [res_eqo] in Hn; [|cbn; apply grows_eqo, Hn|exact I].
  apply grows_eqo in Hn.
  pose proof (il_line_facts s1 props lines line) as Hf.
  destruct (il_line s1 props lines line) as [p l|[[a s']|e s'|]].
  - eapply res_grows_trans; [exact Hn|apply IH].
  - cbn. eapply grows_trans; [exact Hn|apply Hf].
  - cbn. destruct Hf as [_ ->]. exact Hn.
  - exact I.
Qed.

(* a link failure in the proposal loop happens before anything is written *)
Lemma inbound_loop_lost_eqo : forall f s props lines s',
  inbound_loop f s props lines = RFail EConnLost s' -> eqo s s'.
Proof.
  induction f as [|f IH]; intros s props lines s' H; [discriminate|]. rewrite inbound_loop_eq in H.
  pose proof (next_line_eqo true s) as Hn.
  destruct (next_line true s) as [[line s1]|e s1|]; cbn [res_eqo] in Hn; [| |discriminate].
  - pose proof (il_line_facts s1 props lines line) as Hf.
    destruct (il_line s1 props lines line) as [p l|[[a s2]|e s2|]]; try discriminate.
    + eapply eqo_trans; [exact Hn|]. eapply IH; exact H.
    + destruct Hf as [-> _]. discriminate.
  - inversion H; subst. exact Hn.
Qed.

Lemma inbound_loop_ext0 i2 : forall f1 f2 s props lines, (inlen s < f1)%nat -> (inlen s + length i2 < f2)%nat ->
  rel0 i2 s (inbound_loop f1 s props lines) (inbound_loop f2 (ext i2 s) props lines).
Proof.
  induction f1 as [|f1 IH]; intros f2 s props lines H1 H2; [lia|]. destruct f2 as [|f2]; [lia|].
  rewrite !inbound_loop_eq.
  pose proof (next_line_extx true i2 s) as Hn. unfold relx in Hn.
  pose proof (TermP.next_line_ok true s) as Ht.
  destruct (next_line true s) as [[line s1]|[|] s1|] eqn:En.
  - destruct Hn as [Hn Hs]. rewrite Hn. specialize (Ht _ _ eq_refl).
    rewrite il_line_ext. pose proof (il_line_facts s1 props lines line) as Hf.
    destruct (il_line s1 props lines line) as [p l|[[a s']|e s'|]].
    + eapply rel0_lift; [exact Hs|]. apply IH; unfold inlen in *; cbn [ext set_in s_in]; rewrite ?app_length; lia.
    + cbn. split; [reflexivity|]. destruct Hf as [Hf _]. rewrite Hf. exact Hs.
    + destruct Hf as [-> ->]. cbn. eexists; split; [reflexivity|apply eqo_ext].
    + reflexivity.
  - exact I.
  - destruct Hn as (s2&Hn&He). rewrite Hn. exists s2. split; [reflexivity|exact He].
  - rewrite Hn. reflexivity.
Qed.

Lemma inbound_loop_ext i2 f1 f2 s props lines : (inlen s < f1)%nat -> (inlen s + length i2 < f2)%nat ->
  relx i2 s (inbound_loop f1 s props lines) (inbound_loop f2 (ext i2 s) props lines).
Proof.
  intros H1 H2. apply relx_of_rel0; [apply inbound_loop_ext0; assumption|].
  intros s1 E. apply inbound_loop_lost_eqo in E.
  eapply res_lost_grows; [|apply inbound_loop_grows]. apply grows_lost, grows_eqo.
  eapply eqo_trans; [apply eqo_sym; exact E|apply eqo_ext].
Qed.

(* ================================================================================== *)
(* 6. The peer's turn: transfers in                                                   *)
(* ================================================================================== *)
Lemma take_n_app i2 : forall n inp acc sum acc' rest sum',
  take_n n inp acc sum = Some (acc', rest, sum') ->
  take_n n (inp ++ i2) acc sum = Some (acc', rest ++ i2, sum') /\ sfx rest inp.
Proof.
  induction n as [|k IH]; intros inp acc sum acc' rest sum' H; cbn [take_n] in H.
  - inversion H; subst. split; [reflexivity|apply sfx_refl].
  - destruct inp as [|x r]; [discriminate|]. apply IH in H. destruct H as [H1 H2].
    cbn [app take_n]. split; [exact H1|]. eapply sfx_trans; [exact H2|apply sfx_cons].
Qed.

(* the only place where the end of the input is not reported as a lost link: after EOT the
   missing checksum byte reads as 0 *)
Lemma read_frames_ext i2 : forall f1 f2 i1 buf sum cs, (length i1 < f1)%nat -> (length i1 + length i2 < f2)%nat ->
  ends_eot i1 \/
  match read_frames f1 i1 buf sum cs with
  | FOk d r => read_frames f2 (i1 ++ i2) buf sum cs = FOk d (r ++ i2) /\ sfx r i1
  | FErr EOther r => exists r', read_frames f2 (i1 ++ i2) buf sum cs = FErr EOther r'
  | FErr EConnLost _ => True
  end.
Proof.
  induction f1 as [|f1 IH]; intros f2 i1 buf sum cs H1 H2; [lia|]. destruct f2 as [|f2]; [lia|].
  cbn [read_frames]. destruct i1 as [|c r]; [right; exact I|]. cbn [app].
  destruct (c =? CHRSTX).
  - destruct r as [|l r1].
    { right. destruct (take_n 256 [] buf sum) as [[[b' r2] s']|] eqn:E; [|exact I]. discriminate. }
    cbn [app]. set (len := if l =? 0 then 256%nat else N.to_nat l).
    destruct (take_n len r1 buf sum) as [[[b' r2] s']|] eqn:E; [|right; exact I].
    destruct (take_n_app i2 _ _ _ _ _ _ _ E) as [E' Hs]. rewrite E'.
    pose proof (sfx_length _ _ Hs) as Hl. cbn [length] in *.
    destruct (IH f2 r2 b' s' cs ltac:(lia) ltac:(lia)) as [Hc|Hr].
    + left. eapply ends_eot_sfx; [|exact Hc]. eapply sfx_trans; [exact Hs|]. exists [c; l]. reflexivity.
    + right. destruct (read_frames f1 r2 b' s' cs) as [d r3|[|] r3]; try exact Hr.
      destruct Hr as [Hr Hs3]. split; [exact Hr|]. eapply sfx_trans; [exact Hs3|].
      eapply sfx_trans; [exact Hs|]. exists [c; l]. reflexivity.
  - destruct (c =? CHREOT) eqn:Ec.
    + destruct r as [|k r1].
      { left. apply N.eqb_eq in Ec. subst c. exists []. reflexivity. }
      right. cbn [app]. destruct (negb ((sum + k) mod 256 =? 0)); [eexists; reflexivity|].
      destruct (negb (cs =? Z.of_nat (length buf))%Z); [eexists; reflexivity|].
      split; [reflexivity|]. exists [c; k]. reflexivity.
    + right. eexists; reflexivity.
Qed.

(* rel0 with the corner *)
Definition rel0c {A} (i2 : bytes) (s : sess) (r1 r2 : res sess (A * sess)) : Prop :=
  ends_eot (s_in s) \/ rel0 i2 s r1 r2.

Lemma read_compressed_eqo s p : res_eqo s (read_compressed s p).
Proof.
  unfold read_compressed. destruct (s_in s) as [|c r]; [reflexivity|].
  destruct (c =? CHRSOH).
  - destruct r as [|hl r1]; [reflexivity|].
    destruct (read_until CHRNUL r1) as [[title r2]|]; [|reflexivity].
    destruct (read_until CHRNUL r2) as [[offs r3]|]; [|reflexivity].
    destruct (negb (N.to_nat hl =? length title + length offs + 2)%nat); [reflexivity|].
    set (digits := match offs with 45 :: d => d | 43 :: d => d | _ => offs end).
    destruct digits as [|x xs]; [reflexivity|].
    destruct (num_of_digits (x :: xs) 0) as [v|]; [|reflexivity].
    destruct (9223372036854775807 <? v); [reflexivity|]. destruct (negb (v =? 0)); [reflexivity|].
    destruct (read_frames _ r3 [] 0 (i_csize p)); reflexivity.
  - destruct (c =? 42); [|reflexivity].
    pose proof (next_line_eqo true (set_in s r)) as Hn.
    destruct (next_line true (set_in s r)) as [[l s']|e s'|]; cbn in *; try exact I;
      (eapply eqo_trans; [|exact Hn]); reflexivity.
Qed.

Lemma read_compressed_ext0 i2 s p : rel0c i2 s (read_compressed s p) (read_compressed (ext i2 s) p).
Proof.
  unfold rel0c, read_compressed. change (s_in (ext i2 s)) with (s_in s ++ i2).
  destruct (s_in s) as [|c r] eqn:Ein; [right; exact I|]. cbn [app].
  destruct (c =? CHRSOH).
  - destruct r as [|hl r1]; [right; exact I|]. cbn [app].
    destruct (read_until CHRNUL r1) as [[title r2]|] eqn:E1; [|right; exact I].
    rewrite (read_until_app _ _ i2 _ _ E1).
    destruct (read_until CHRNUL r2) as [[offs r3]|] eqn:E2; [|right; exact I].
    rewrite (read_until_app _ _ i2 _ _ E2).
    assert (Fo : forall r3', @rel0 bytes i2 s (RFail EOther (set_in s r3)) (RFail EOther (set_in (ext i2 s) r3'))).
    { intros r3'. eexists; split; reflexivity. }
    assert (Hs3 : sfx r3 (c :: hl :: r1)).
    { eapply sfx_trans; [eapply read_until_sfx; exact E2|]. eapply sfx_trans; [eapply read_until_sfx; exact E1|].
      exists [c; hl]. reflexivity. }
    destruct (negb (N.to_nat hl =? length title + length offs + 2)%nat); [right; apply Fo|].
    set (digits := match offs with 45 :: d => d | 43 :: d => d | _ => offs end).
    destruct digits as [|x xs]; [right; apply Fo|].
    destruct (num_of_digits (x :: xs) 0) as [v|]; [|right; apply Fo].
    destruct (9223372036854775807 <? v); [right; apply Fo|]. destruct (negb (v =? 0)); [right; apply Fo|].
    destruct (read_frames_ext i2 (S (length r3)) (S (length (r3 ++ i2))) r3 [] 0 (i_csize p)) as [Hc|Hr];
      [lia|rewrite app_length; lia| |].
    + left. eapply ends_eot_sfx; eassumption.
    + right. destruct (read_frames (S (length r3)) r3 [] 0 (i_csize p)) as [d r4|[|] r4].
      * destruct Hr as [Hr Hs4]. rewrite Hr. split; [reflexivity|]. cbn [set_in s_in].
        rewrite Ein. eapply sfx_trans; eassumption.
      * exact I.
      * destruct Hr as [r' Hr]. rewrite Hr. eexists; split; reflexivity.
  - right. destruct (c =? 42).
    + change (set_in (ext i2 s) (r ++ i2)) with (ext i2 (set_in s r)).
      pose proof (next_line_extx true i2 (set_in s r)) as Hn. unfold relx in Hn.
      pose proof (next_line_eqo true (set_in s r)) as Q1.
      pose proof (next_line_eqo true (ext i2 (set_in s r))) as Q2.
      pose proof (next_line_nopanic true (ext i2 (set_in s r))) as Np.
      destruct (next_line true (set_in s r)) as [[l s']|[|] s'|].
      * destruct Hn as [Hn _]. rewrite Hn. eexists; split; [reflexivity|apply eqo_ext].
      * cbn [res_eqo] in Q1.
        destruct (next_line true (ext i2 (set_in s r))) as [[l2 s2]|e2 s2|]; [| |congruence];
          cbn [res_eqo] in Q2; eexists; (split; [reflexivity|]);
          (eapply eqo_trans; [apply eqo_sym; exact Q1|exact Q2]).
      * destruct Hn as (s2&Hn&He). rewrite Hn. exists s2. split; [reflexivity|exact He].
      * rewrite Hn. reflexivity.
    + eexists; split; reflexivity.
Qed.

Lemma read_compressed_ext i2 s p : rel i2 s (read_compressed s p) (read_compressed (ext i2 s) p).
Proof.
  destruct (read_compressed_ext0 i2 s p) as [H|H]; [left; exact H|right].
  apply relx_of_rel0; [exact H|].
  intros s1 E. eapply readonly_lost; [| |exact E]; apply read_compressed_eqo.
Qed.

(* ---------- receive_accepted ---------- *)
Definition rc_grows (s : sess) (r : rres) : Prop :=
  match r with RcOk s' => grows s s' | RcErr _ s' => grows s s' | _ => True end.
Definition rc_lost (s1 : sess) (r2 : rres) : Prop :=
  match r2 with RcOk s2 => lost s1 s2 | RcErr _ s2 => lost s1 s2 | RcPanic => True | RcUnknown => True end.

Definition rrel (i2 : bytes) (s : sess) (r1 r2 : rres) : Prop :=
  ends_eot (s_in s) \/
  match r1 with
  | RcOk s1 => r2 = RcOk (ext i2 s1) /\ sfx (s_in s1) (s_in s)
  | RcErr EOther s1 => exists s2, r2 = RcErr EOther s2 /\ eqo s1 s2
  | RcErr EConnLost s1 => rc_lost s1 r2
  | RcPanic => r2 = RcPanic
  | RcUnknown => r2 = RcUnknown
  end.

Lemma rrel_lift i2 s s1 r1 r2 : sfx (s_in s1) (s_in s) -> rrel i2 s1 r1 r2 -> rrel i2 s r1 r2.
Proof.
  intros Hs [H|H]; [left; eapply ends_eot_sfx; eassumption|right].
  destruct r1 as [s'|[|] s'| |]; try exact H.
  destruct H as [H1 H2]. split; [exact H1|]. eapply sfx_trans; eassumption.
Qed.

Lemma receive_accepted_grows : forall props s, rc_grows s (receive_accepted s props).
Proof.
  induction props as [|p r IH]; intros s; cbn [receive_accepted]; [cbn; gr|].
  destruct (i_answer p); try apply IH.
  pose proof (read_compressed_eqo s p) as Hr.
  destruct (read_compressed s p) as [[cdata s1]|e s1|]; cbn [res_eqo] in Hr; [|cbn; apply grows_eqo, Hr|exact I].
  apply grows_eqo in Hr.
  destruct (proposal_message cdata) as [mid data|e|]; [|exact Hr|exact I].
  destruct (mem_bytes mid (h_fail (s_h s1))); [cbn; gr|].
  specialize (IH (add_recv (ev s1 (EvProcess mid data (negb false))) (i_mid p))).
  destruct (receive_accepted _ r); cbn in *; try exact I; (eapply grows_trans; [|exact IH]); gr.
Qed.

Lemma rc_lost_grows s1 s2 r : lost s1 s2 -> rc_grows s2 r -> rc_lost s1 r.
Proof. intros H G. destruct r; cbn in *; try exact I; eapply lost_grows; eassumption. Qed.

Lemma receive_accepted_ext i2 : forall props s,
  rrel i2 s (receive_accepted s props) (receive_accepted (ext i2 s) props).
Proof.
  induction props as [|p r IH]; intros s; cbn [receive_accepted].
  { right. split; [reflexivity|apply sfx_refl]. }
  destruct (i_answer p); try apply IH.
  destruct (read_compressed_ext i2 s p) as [H|H]; [left; exact H|]. unfold relx in H.
  destruct (read_compressed s p) as [[cdata s1]|[|] s1|].
  - destruct H as [H Hs]. rewrite H.
    destruct (proposal_message cdata) as [mid data|[|]|].
    + change (s_h (ext i2 s1)) with (s_h s1).
      destruct (mem_bytes mid (h_fail (s_h s1))).
      * right. eexists; split; [reflexivity|]. reflexivity.
      * eapply rrel_lift; [|apply (IH (add_recv (ev s1 (EvProcess mid data (negb false))) (i_mid p)))]. exact Hs.
    + right. cbn. apply grows_lost. gr.
    + right. eexists; split; [reflexivity|apply eqo_ext].
    + right. reflexivity.
  - (* the link is lost inside a transfer *)
    right. destruct (read_compressed (ext i2 s) p) as [[cdata s2]|e s2|]; cbn [res_lost] in H; [|exact H|exact I].
    destruct (proposal_message cdata) as [mid data|e|]; [|exact H|exact I].
    destruct (mem_bytes mid (h_fail (s_h s2))); [cbn; eapply lost_grows; [exact H|gr]|].
    eapply rc_lost_grows; [|apply receive_accepted_grows]. eapply lost_grows; [exact H|gr].
  - destruct H as (s2&H&He). rewrite H. right. exists s2. split; [reflexivity|exact He].
  - rewrite H. right. reflexivity.
Qed.

(* ================================================================================== *)
(* 7. The turn loop                                                                   *)
(* ================================================================================== *)
Lemma turns_grows : forall f my s, grows s (snd (turns f my s)).
Proof.
  induction f as [|f IH]; intros my s; [cbn; gr|]. cbn [turns]. destruct my.
  - pose proof (handle_outbound_grows s) as H.
    destruct (handle_outbound s) as [[q s1]|e s1|]; cbn [res_grows snd] in *; [|exact H|gr].
    destruct q; [exact H|]. eapply grows_trans; [exact H|apply IH].
  - pose proof (inbound_loop_grows (S (length (s_in s))) s [] []) as H.
    destruct (inbound_loop _ s [] []) as [[[q props] s1]|e s1|]; cbn [res_grows snd] in *; [|exact H|gr].
    pose proof (receive_accepted_grows props s1) as Hr.
    destruct (receive_accepted s1 props) as [s2|e s2| |]; cbn [rc_grows snd] in *; try exact H.
    + destruct q; [eapply grows_trans; eassumption|].
      eapply grows_trans; [exact H|]. eapply grows_trans; [exact Hr|apply IH].
    + eapply grows_trans; eassumption.
Qed.

(* t1: the loop from s; t2: the loop from [ext i2 s] *)
Definition trel (i2 : bytes) (s : sess) (t1 t2 : xres * sess) : Prop :=
  ends_eot (s_in s) \/
  match fst t1 with
  | XConnLost => fst t2 = XUnknown \/ lost (snd t1) (snd t2)
  | XOutOfFuel => True
  | XNil => fst t2 = XNil /\ snd t2 = ext i2 (snd t1)
  | _ => fst t2 = fst t1 /\ eqo (snd t1) (snd t2)
  end.

Lemma trel_lift i2 s s1 t1 t2 : sfx (s_in s1) (s_in s) -> trel i2 s1 t1 t2 -> trel i2 s t1 t2.
Proof. intros Hs [H|H]; [left; eapply ends_eot_sfx; eassumption|right; exact H]. Qed.

Lemma turns_ext i2 : forall f1 f2 (my : bool) s,
  (2 * inlen s + (if my then 2 else 1) <= f1)%nat ->
  (2 * (inlen s + length i2) + (if my then 2 else 1) <= f2)%nat ->
  trel i2 s (turns f1 my s) (turns f2 my (ext i2 s)).
Proof.
  induction f1 as [|f1 IH]; intros f2 my s H1 H2; [destruct my; lia|].
  destruct f2 as [|f2]; [destruct my; lia|]. cbn [turns]. destruct my.
  - (* my turn *)
    pose proof (handle_outbound_extx i2 s) as H. unfold relx in H.
    pose proof (handle_outbound_nopanic (ext i2 s)) as Np.
    pose proof (TermP.handle_outbound_inlen s) as Hl.
    destruct (handle_outbound s) as [[q s1]|[|] s1|].
    + destruct H as [H Hs]. rewrite H. specialize (Hl _ _ eq_refl).
      destruct q; [right; cbn; split; reflexivity|].
      eapply trel_lift; [exact Hs|]. apply IH; unfold inlen in *; cbn [ext set_in s_in]; rewrite ?app_length; lia.
    + right. cbn [fst snd]. right.
      destruct (handle_outbound (ext i2 s)) as [[q s2]|e s2|]; cbn [res_lost] in H; [|exact H|congruence].
      destruct q; [exact H|]. eapply lost_grows; [exact H|apply turns_grows].
    + destruct H as (s2&H&He). rewrite H. right. cbn. split; [reflexivity|exact He].
    + rewrite H. right. cbn. split; [reflexivity|apply eqo_ext].
  - (* the peer's turn *)
    change (s_in (ext i2 s)) with (s_in s ++ i2).
    assert (H : relx i2 s (inbound_loop (S (length (s_in s))) s [] [])
                          (inbound_loop (S (length (s_in s ++ i2))) (ext i2 s) [] [])).
    { apply inbound_loop_ext; unfold inlen; rewrite ?app_length; lia. }
    unfold relx in H.
    pose proof (TermP.inbound_loop_ok (S (length (s_in s))) s [] []) as Hl.
    destruct (inbound_loop (S (length (s_in s))) s [] []) as [[[q props] s1]|[|] s1|].
    + destruct H as [H Hs]. rewrite H. specialize (Hl _ _ _ eq_refl).
      pose proof (receive_accepted_ext i2 props s1) as Hr.
      apply (rrel_lift i2 s) in Hr; [|exact Hs]. destruct Hr as [Hr|Hr]; [left; exact Hr|].
      pose proof (receive_accepted_nopanic props (ext i2 s1)) as Np.
      pose proof (TermP.receive_accepted_inlen props s1) as Hl2.
      destruct (receive_accepted s1 props) as [s2|[|] s2| |].
      * destruct Hr as [Hr Hs2]. rewrite Hr.
        destruct q; [right; cbn; split; reflexivity|].
        eapply trel_lift; [exact Hs2|]. apply IH; unfold inlen in *; cbn [ext set_in s_in]; rewrite ?app_length; lia.
      * right. cbn [fst snd].
        destruct (receive_accepted (ext i2 s1) props) as [s3|e s3| |]; cbn [rc_lost] in Hr;
          [|right; exact Hr|congruence|left; reflexivity].
        destruct q; [right; exact Hr|]. right. eapply lost_grows; [exact Hr|apply turns_grows].
      * destruct Hr as (s3&Hr&He). rewrite Hr. right. cbn. split; [reflexivity|exact He].
      * rewrite Hr. right. cbn. split; [reflexivity|apply eqo_ext].
      * rewrite Hr. right. cbn. split; [reflexivity|apply eqo_ext].
    + right. cbn [fst snd].
      pose proof (inbound_loop_nopanic (S (length (s_in s ++ i2))) (ext i2 s) [] []) as Np.
      destruct (inbound_loop _ (ext i2 s) [] []) as [[[q props] s2]|e s2|]; cbn [res_lost] in H;
        [|right; exact H|congruence].
      pose proof (receive_accepted_grows props s2) as G.
      pose proof (receive_accepted_nopanic props s2) as Np2.
      destruct (receive_accepted s2 props) as [s3|e s3| |]; cbn [rc_grows fst snd] in *;
        [| |congruence|left; reflexivity].
      * right. destruct q; [eapply lost_grows; eassumption|].
        eapply lost_grows; [exact H|]. eapply grows_trans; [exact G|apply turns_grows].
      * right. eapply lost_grows; eassumption.
    + destruct H as (s2&H&He). rewrite H. right. cbn. split; [reflexivity|exact He].
    + rewrite H. right. cbn. split; [reflexivity|apply eqo_ext].
Qed.

(* ================================================================================== *)
(* 8. CAUSALITY of Exchange                                                           *)
(* ================================================================================== *)
Definition prefix {A} (a b : list A) : Prop := exists x, b = a ++ x.

(* the two outcomes agree on everything but the number of bytes consumed *)
Definition same_obs (o1 o2 : outcome) : Prop :=
  x_res o2 = x_res o1 /\ x_wire o2 = x_wire o1 /\ x_events o2 = x_events o1 /\
  x_sent o2 = x_sent o1 /\ x_recv o2 = x_recv o1.

(* o2 continues o1: everything o1 wrote and recorded comes first in o2, in the same order;
   only the EvBlockEnd with which o1 closed its failed turn may come later (or not at all) in o2 *)
Definition continues (o1 o2 : outcome) : Prop :=
  prefix (x_wire o1) (x_wire o2) /\
  (prefix (x_events o1) (x_events o2) \/
   exists e0, x_events o1 = e0 ++ [EvBlockEnd] /\ prefix e0 (x_events o2)) /\
  prefix (x_sent o1) (x_sent o2) /\ prefix (x_recv o1) (x_recv o2).

Lemma rev'_rev {A} (l : list A) : rev' l = rev l.
Proof. unfold rev'. symmetry. apply rev_alt. Qed.

Lemma pre_rev' {A} (a b : list A) : pre a b -> prefix (rev' a) (rev' b).
Proof. intros [x ->]. exists (rev' x). rewrite !rev'_rev. apply rev_app_distr. Qed.

Lemma pre_concat_rev' (a b : list bytes) : pre a b -> prefix (concat (rev' a)) (concat (rev' b)).
Proof. intros H. apply pre_rev' in H. destruct H as [x ->]. exists (concat x). apply concat_app. Qed.

Definition fin_state (r : xres) (s : sess) : sess := match r with XOther => wr s echo | _ => s end.

Lemma finish_same n1 n2 r s1 s2 : eqo s1 s2 -> same_obs (finish n1 r s1) (finish n2 r s2).
Proof.
  intros H. assert (H' : eqo (fin_state r s1) (fin_state r s2)).
  { destruct r; try exact H. unfold eqo in *. cbn [fin_state].
    change (wr (set_in s1 []) echo = wr (set_in s2 []) echo). rewrite H. reflexivity. }
  unfold same_obs, finish. fold (fin_state r s1). fold (fin_state r s2). cbn [x_res x_wire x_events x_sent x_recv].
  rewrite (eqo_out _ _ H'), (eqo_ev _ _ H'), (eqo_sent _ _ H'), (eqo_recv _ _ H'). repeat split.
Qed.

Lemma finish_lost n1 n2 r2 s1 s2 : lost s1 s2 -> continues (finish n1 XConnLost s1) (finish n2 r2 s2).
Proof.
  intros H. assert (H' : lost s1 (fin_state r2 s2)).
  { eapply lost_grows; [exact H|]. destruct r2; cbn [fin_state]; gr. }
  unfold continues, finish. fold (fin_state r2 s2). cbn [x_res x_wire x_events x_sent x_recv].
  destruct H' as (A1&A2&A3&A4). split; [apply pre_concat_rev', A1|]. split; [|split; apply pre_rev'; assumption].
  destruct A2 as [A2|(e0&E&A2)]; [left; apply pre_rev', A2|right].
  exists (rev' e0). split; [|apply pre_rev', A2]. rewrite E, !rev'_rev. reflexivity.
Qed.

Theorem exchange_cut cfg (I1 I2 : bytes) :
  ~ ends_eot I1 ->
  let o1 := exchange cfg I1 in
  let o2 := exchange cfg (I1 ++ I2) in
  (x_res o1 <> XConnLost -> same_obs o1 o2) /\
  (x_res o1 = XConnLost -> x_res o2 <> XUnknown -> continues o1 o2).
Proof.
  intros Hc. cbv zeta. unfold exchange. cbv zeta.
  set (s0 := {| s_in := I1; s_out := []; s_ev := []; s_h := c_handler cfg; s_master := c_master cfg;
                s_remote_nomsgs := false; s_sent := []; s_recv := []; s_cfg := c_hs cfg; s_motd := c_motd cfg |}).
  change {| s_in := I1 ++ I2; s_out := []; s_ev := []; s_h := c_handler cfg; s_master := c_master cfg;
            s_remote_nomsgs := false; s_sent := []; s_recv := []; s_cfg := c_hs cfg; s_motd := c_motd cfg |}
    with (ext I2 s0).
  set (s1 := if h_present (c_handler cfg) then ev s0 EvPrepare else s0).
  replace (if h_present (c_handler cfg) then ev (ext I2 s0) EvPrepare else ext I2 s0) with (ext I2 s1)
    by (unfold s1; destruct (h_present (c_handler cfg)); reflexivity).
  assert (E1 : s_in s1 = I1) by (unfold s1; destruct (h_present (c_handler cfg)); reflexivity).
  destruct (h_present (c_handler cfg) && h_prepare_err (c_handler cfg)).
  { split; [intros _; apply finish_same, eqo_ext|]. cbn. discriminate. }
  pose proof (handshake_extx I2 s1) as H. unfold relx in H.
  pose proof (handshake_nopanic (ext I2 s1)) as Np.
  pose proof (handshake_inlen s1) as Hl.
  destruct (handshake s1) as [s2|[|] s2|]; cbn [lift1] in H.
  - destruct (handshake (ext I2 s1)) as [s2'|e s2'|]; cbn [lift1] in H; try (destruct H; discriminate).
    destruct H as [H Hs]. injection H as ->.
    set (f1 := (2 * length I1 + length (h_outbox (c_handler cfg)) + 8)%nat).
    set (f2 := (2 * length (I1 ++ I2) + length (h_outbox (c_handler cfg)) + 8)%nat).
    pose proof (turns_ext I2 f1 f2 (negb (c_master cfg)) s2) as Ht.
    pose proof (turns_terminate f1 (negb (c_master cfg)) s2) as Hf.
    unfold inlen in *. rewrite E1 in Hl.
    assert (T1 : (2 * length (s_in s2) + (if negb (c_master cfg) then 2 else 1) <= f1)%nat)
      by (unfold f1; destruct (negb (c_master cfg)); lia).
    assert (T2 : (2 * (length (s_in s2) + length I2) + (if negb (c_master cfg) then 2 else 1) <= f2)%nat)
      by (unfold f2; rewrite app_length; destruct (negb (c_master cfg)); lia).
    specialize (Ht T1 T2). specialize (Hf T1).
    apply (trel_lift I2 s1) in Ht; [|exact Hs].
    destruct Ht as [Ht|Ht]; [rewrite E1 in Ht; contradiction|].
    destruct (turns f1 (negb (c_master cfg)) s2) as [r1 s3].
    destruct (turns f2 (negb (c_master cfg)) (ext I2 s2)) as [r2 s3']. cbn [fst snd] in *.
    assert (Gen : r2 = r1 /\ eqo s3 s3' -> r1 <> XConnLost ->
                  (x_res (finish (length I1) r1 s3) <> XConnLost ->
                   same_obs (finish (length I1) r1 s3) (finish (length (I1 ++ I2)) r2 s3')) /\
                  (x_res (finish (length I1) r1 s3) = XConnLost ->
                   x_res (finish (length (I1 ++ I2)) r2 s3') <> XUnknown ->
                   continues (finish (length I1) r1 s3) (finish (length (I1 ++ I2)) r2 s3'))).
    { intros [Hr Hq] Hn. rewrite Hr. split; [intros _; apply finish_same; exact Hq|]. cbn [finish x_res]. congruence. }
    destruct r1.
    + destruct Ht as [-> ->]. split; [intros _; apply finish_same, eqo_ext|cbn; discriminate].
    + split; [cbn; congruence|]. intros _ Hu. cbn [finish x_res] in Hu.
      destruct Ht as [Ht|Ht]; [contradiction|]. apply finish_lost. exact Ht.
    + apply Gen; [exact Ht|discriminate].
    + apply Gen; [exact Ht|discriminate].
    + contradiction.
    + apply Gen; [exact Ht|discriminate].
  - split; [cbn; congruence|]. intros _ _.
    destruct (handshake (ext I2 s1)) as [s2'|e s2'|]; cbn [lift1 res_lost] in H; [| |congruence].
    + destruct (turns _ (negb (c_master cfg)) s2') as [r2 s3'] eqn:Et.
      apply finish_lost. eapply lost_grows; [exact H|].
      replace s3' with (snd (turns (2 * length (I1 ++ I2) + length (h_outbox (c_handler cfg)) + 8) (negb (c_master cfg)) s2'))
        by (rewrite Et; reflexivity).
      apply turns_grows.
    + change (finish (length I1) (xerr EConnLost) s2) with (finish (length I1) XConnLost s2).
      apply finish_lost. exact H.
  - destruct H as (s2'&H&He).
    destruct (handshake (ext I2 s1)) as [s3|e s3|]; cbn [lift1] in H; try discriminate.
    injection H as -> ->. split; [intros _; apply finish_same; exact He|cbn; discriminate].
  - destruct (handshake (ext I2 s1)) as [s3|e s3|]; cbn [lift1] in H; try discriminate.
    split; [intros _; apply finish_same, eqo_ext|cbn; discriminate].
Qed.

(* ---------- the hypothesis of exchange_cut cannot be dropped ----------
   A receiver (master, empty outbox) is sent one proposal and the transfer of a message whose
   compressed form sums to 0 mod 256.  Cut right after the EOT of the transfer, the receiver
   takes the missing checksum byte for 0, hands the message to the handler and goes on to its
   own turn (it writes FF); had the next byte been 1, it would have refused the transfer.
   (With the genuine next byte, 0, both runs agree; a correct sender never produces the
   diverging continuation.) *)
Definition cx_msg : bytes :=       (* "Mid: ABC\r\nBody: 5\r\nDate: 2016/12/30 01:00\r\n\r\nhAR\r\n" *)
  [77;105;100;58;32;65;66;67;13;10;66;111;100;121;58;32;53;13;10;68;97;116;101;58;32;50;48;49;54;47;49;50;47;
   51;48;32;48;49;58;48;48;13;10;13;10;104;65;82;13;10].
Definition cx_cdata : bytes := Dec.compress true cx_msg.
Definition cx_side (master : bool) (outbox : list oprop) (policy : list (bytes * answer)) (fail : list bytes) : side_cfg :=
  {| c_master := master; c_motd := [];
     c_hs := {| hs_fw := [[76;65;49;66]]; hs_name := [119]; hs_version := [49]; hs_target := [88];
                hs_mycall := [76;65;49;66]; hs_locator := []; hs_master := master; hs_gzip := false; hs_cb := None |};
     c_handler := {| h_present := true; h_prepare_err := false; h_outbox := outbox; h_gone := [];
                     h_policy := policy; h_fail := fail |} |}.
Definition cx_prop : oprop :=
  {| o_mid := [65;66;67]; o_title := [116]; o_plain_title := [116]; o_size := 50; o_cdata := cx_cdata |}.
(* what the sending side (slave, one message) writes when it receives the receiver's handshake
   and the answer "FS +": handshake, proposal, F> line, the framed transfer ending in EOT 0 *)
Definition cx_stream : bytes :=
  x_wire (exchange (cx_side false [cx_prop] [] [])
                   (x_wire (exchange (cx_side true [] [] []) []) ++ [70;83;32;43;13])).
Definition cx_I1 : bytes := removelast cx_stream.

Lemma prefix_prefixb (a b : bytes) : prefix a b -> prefixb a b = true.
Proof.
  intros [x ->]. induction a as [|y a IH]; [reflexivity|]. cbn [app prefixb]. rewrite N.eqb_refl. exact IH.
Qed.

Example cut_after_eot_counterexample :
  let cfg := cx_side true [] [] [] in
  let o1 := exchange cfg cx_I1 in
  let o2 := exchange cfg (cx_I1 ++ [1]) in
  ends_eot cx_I1 /\ x_res o1 = XConnLost /\ x_res o2 = XOther /\
  ~ prefix (x_wire o1) (x_wire o2) /\
  (exists d, In (EvProcess [65;66;67] d true) (x_events o1)) /\
  ~ (exists d, In (EvProcess [65;66;67] d true) (x_events o2)) /\
  same_obs o1 (exchange cfg (cx_I1 ++ [0])).
Proof.
  cbv zeta. split; [|split; [|split; [|split; [|split; [|split]]]]].
  - exists (removelast cx_I1). vm_compute. reflexivity.
  - vm_compute. reflexivity.
  - vm_compute. reflexivity.
  - intros H. apply prefix_prefixb in H. vm_compute in H. discriminate.
  - eexists. vm_compute. do 2 right. left. reflexivity.
  - intros [d H]. vm_compute in H. repeat (destruct H as [H|H]; [discriminate|]). exact H.
  - vm_compute. repeat split.
Qed.

(* ================================================================================== *)
(* 9. RECEIVER HALF: after its FS answer the receiver stays silent until every accepted *)
(*    message of the block has been received completely and stored                      *)
(* ================================================================================== *)

(* the events of a completely received block: one successful EvProcess per accepted proposal,
   in order, each for a payload that passed the frame checks (read_compressed) and
   decompressed and parsed (proposal_message) *)
Inductive block_processed : list iprop -> list event -> Prop :=
| bp_nil : block_processed [] []
| bp_skip p ps evs : i_answer p <> AAccept -> block_processed ps evs -> block_processed (p :: ps) evs
| bp_acc p ps evs mid data cdata :
    i_answer p = AAccept -> proposal_message cdata = MOk mid data -> Z.of_nat (length cdata) = i_csize p ->
    block_processed ps evs -> block_processed (p :: ps) (EvProcess mid data true :: evs).

Lemma take_n_length : forall n inp acc sum acc' rest sum',
  take_n n inp acc sum = Some (acc', rest, sum') -> length acc' = (n + length acc)%nat.
Proof.
  induction n as [|k IH]; intros inp acc sum acc' rest sum' H; cbn [take_n] in H.
  - inversion H; subst. reflexivity.
  - destruct inp as [|x r]; [discriminate|]. apply IH in H. cbn [length] in H. lia.
Qed.

Lemma read_frames_ok_csize : forall fuel inp buf sum cs d r,
  read_frames fuel inp buf sum cs = FOk d r -> Z.of_nat (length d) = cs.
Proof.
  induction fuel as [|f IH]; intros inp buf sum cs d r H; cbn [read_frames] in H; [discriminate|].
  destruct inp as [|c r0]; [discriminate|].
  destruct (c =? CHRSTX).
  - destruct r0 as [|l r1].
    + destruct (take_n 256 [] buf sum) as [[[b' r2] s']|]; [|discriminate]. eapply IH; exact H.
    + destruct (take_n _ r1 buf sum) as [[[b' r2] s']|]; [|discriminate]. eapply IH; exact H.
  - destruct (c =? CHREOT); [|discriminate].
    destruct r0 as [|k r1].
    + destruct (negb ((sum + 0) mod 256 =? 0)); [discriminate|].
      destruct (negb (cs =? Z.of_nat (length buf))%Z) eqn:E; [discriminate|].
      inversion H; subst. rewrite rev'_rev, rev_length. apply negb_false_iff, Z.eqb_eq in E. congruence.
    + destruct (negb ((sum + k) mod 256 =? 0)); [discriminate|].
      destruct (negb (cs =? Z.of_nat (length buf))%Z) eqn:E; [discriminate|].
      inversion H; subst. rewrite rev'_rev, rev_length. apply negb_false_iff, Z.eqb_eq in E. congruence.
Qed.

Lemma read_compressed_ok_csize s p cdata s' :
  read_compressed s p = ROk (cdata, s') -> Z.of_nat (length cdata) = i_csize p.
Proof.
  unfold read_compressed. destruct (s_in s) as [|c r]; [discriminate|].
  destruct (c =? CHRSOH).
  - destruct r as [|hl r1]; [discriminate|].
    destruct (read_until CHRNUL r1) as [[title r2]|]; [|discriminate].
    destruct (read_until CHRNUL r2) as [[offs r3]|]; [|discriminate].
    destruct (negb (N.to_nat hl =? length title + length offs + 2)%nat); [discriminate|].
    set (digits := match offs with 45 :: d => d | 43 :: d => d | _ => offs end).
    destruct digits as [|x xs]; [discriminate|].
    destruct (num_of_digits (x :: xs) 0) as [v|]; [|discriminate].
    destruct (9223372036854775807 <? v); [discriminate|]. destruct (negb (v =? 0)); [discriminate|].
    destruct (read_frames _ r3 [] 0 (i_csize p)) as [d r4|e r4] eqn:E; [|discriminate].
    intros H; inversion H; subst. eapply read_frames_ok_csize; exact E.
  - destruct (c =? 42); [|discriminate].
    destruct (next_line true (set_in s r)) as [[l sx]|e sx|]; discriminate.
Qed.

(* receive_accepted never writes; when it succeeds every accepted proposal was processed *)
Lemma receive_accepted_silent : forall props s,
  match receive_accepted s props with
  | RcOk s' => s_out s' = s_out s /\ exists evs, s_ev s' = rev evs ++ s_ev s /\ block_processed props evs
  | RcErr _ s' => s_out s' = s_out s
  | RcPanic => True
  | RcUnknown => True
  end.
Proof.
  induction props as [|p r IH]; intros s; cbn [receive_accepted].
  { split; [reflexivity|]. exists []. split; [reflexivity|constructor]. }
  destruct (i_answer p) eqn:Ea.
  2,3: specialize (IH s); destruct (receive_accepted s r); try exact IH;
       destruct IH as (I1&evs&I2&I3); split; [exact I1|]; exists evs; split; [exact I2|];
       apply bp_skip; [congruence|exact I3].
  pose proof (read_compressed_eqo s p) as Hq. pose proof (read_compressed_ok_csize s p) as Hc.
  destruct (read_compressed s p) as [[cdata s1]|e s1|]; cbn [res_eqo] in Hq; [|symmetry; apply eqo_out, Hq|exact I].
  destruct (proposal_message cdata) as [mid data|e|] eqn:Em; [|symmetry; apply eqo_out, Hq|exact I].
  destruct (mem_bytes mid (h_fail (s_h s1))); [cbn [ev s_out]; symmetry; apply eqo_out, Hq|].
  specialize (IH (add_recv (ev s1 (EvProcess mid data (negb false))) (i_mid p))).
  destruct (receive_accepted _ r) as [s2|e s2| |]; try exact I.
  - destruct IH as (I1&evs&I2&I3). cbn [add_recv ev s_out s_ev negb] in *.
    split; [rewrite I1; symmetry; apply eqo_out, Hq|].
    exists (EvProcess mid data true :: evs). split.
    + rewrite I2. cbn [rev]. rewrite <- app_assoc. cbn [app]. rewrite (eqo_ev _ _ Hq). reflexivity.
    + eapply bp_acc; [exact Ea|exact Em|eapply Hc; reflexivity|exact I3].
  - cbn [add_recv ev s_out] in IH. rewrite IH. symmetry. apply eqo_out, Hq.
Qed.

(* everything my turn writes starts with a line that begins with 'F' (a proposal, FF or FQ) *)
Definition starts_with_F (w : list bytes) : Prop :=       (* w: the new writes, latest first *)
  exists w' r, w = w' ++ [70 :: r].

Lemma fold_wr_out {B} (f : B -> bytes) l : forall s,
  s_out (fold_left (fun acc x => wr acc (f x)) l s) = rev (map f l) ++ s_out s.
Proof.
  induction l as [|x l IH]; intros s; cbn [fold_left map rev]; [reflexivity|].
  rewrite IH. cbn [wr s_out]. rewrite <- app_assoc. reflexivity.
Qed.

Lemma handle_outbound_speaks s :
  match handle_outbound s with
  | ROk (_, s') => exists w, s_out s' = w ++ s_out s /\ starts_with_F w
  | RFail _ s' => exists w, s_out s' = w ++ s_out s /\ starts_with_F w
  | RPanic => True
  end.
Proof.
  pose proof (handle_outbound_grows s) as G. rewrite handle_outbound_eq in *.
  assert (E0 : s_out (snd (outbound s)) = s_out s) by (unfold outbound; destruct (h_present (s_h s)); reflexivity).
  destruct (outbound s) as [props s0]. cbn [snd] in E0.
  destruct props as [|p ps].
  { cbv zeta. exists [if s_remote_nomsgs s0 then [70; 81; 13] else [70; 70; 13]]. cbn [wr s_out]. rewrite E0.
    split; [reflexivity|].
    exists [], (if s_remote_nomsgs s0 then [81; 13] else [70; 13]). destruct (s_remote_nomsgs s0); reflexivity. }
  cbv zeta in *. set (block := firstn _ _) in *.
  assert (Hb : exists p' b', block = p' :: b') by (unfold block; change (N.to_nat MaxBlockSize) with 5%nat; cbn [firstn]; eauto).
  destruct Hb as (p'&b'&Hb).
  assert (H2 : exists w, s_out (ho_propose block s0) = w ++ s_out s /\ starts_with_F w).
  { unfold ho_propose. cbv zeta. cbn [wr s_out]. rewrite (fold_wr_out (fun l => l ++ [13])), E0.
    eexists. split; [rewrite app_comm_cons; reflexivity|]. rewrite Hb. cbn [map rev].
    eexists (_ :: _), _. unfold proposal_line. reflexivity. }
  destruct H2 as (w2&H2&F2).
  assert (Hg : forall s', grows (ho_propose block s0) s' -> exists w, s_out s' = w ++ s_out s /\ starts_with_F w).
  { intros s' ([x Hx]&_). rewrite Hx, H2. exists (x ++ w2). split; [apply app_assoc|].
    destruct F2 as (w'&r&->). exists (x ++ w'), r. apply app_assoc. }
  set (s2 := ho_propose block s0) in *.
  pose proof (read_reply_eqo (S (length (s_in s2))) s2) as Hr.
  destruct (read_reply _ s2) as [[reply s3]|e s3|]; cbn [res_eqo] in Hr; [|apply Hg, grows_eqo, Hr|exact I].
  pose proof (ho_transfer_grows block reply s3) as Gt.
  destruct (ho_transfer block reply s3) as [[q s4]|e s4|]; cbn [res_grows] in Gt; try exact I;
    apply Hg; (eapply grows_trans; [apply grows_eqo, Hr|exact Gt]).
Qed.

(* RECEIVER HALF.  Consider the peer's turn from state s: the proposal loop ends in state s1
   with the answered block props (the FS line, if any, is the last thing written in s1).
   Whatever the rest of the session does, the writes that follow s1 are
   - none at all (link lost, or an error: Exchange then only sends its error report, which
     begins with '*', see finish_echo below), or
   - they begin with a line starting with 'F' -- and then every accepted proposal of the block
     was received completely, passed all checks and was stored successfully before that line. *)
Theorem receiver_half f s q props s1 :
  inbound_loop (S (length (s_in s))) s [] [] = ROk (q, props, s1) ->
  let t := turns (S f) false s in
  exists w, s_out (snd t) = w ++ s_out s1 /\
    (w = [] \/
     (starts_with_F w /\
      exists s2 evs, receive_accepted s1 props = RcOk s2 /\ s_out s2 = s_out s1 /\
                     s_ev s2 = rev evs ++ s_ev s1 /\ block_processed props evs /\
                     pre (s_ev s2) (s_ev (snd t)))).
Proof.
  intros E. cbv zeta. cbn [turns]. rewrite E.
  pose proof (receive_accepted_silent props s1) as H.
  destruct (receive_accepted s1 props) as [s2|e s2| |]; cbn [snd].
  - destruct H as (H1&evs&H2&H3). destruct q; [exists []; split; [exact H1|left; reflexivity]|].
    destruct f as [|f]; [exists []; split; [exact H1|left; reflexivity]|]. cbn [turns].
    pose proof (handle_outbound_speaks s2) as Hs. pose proof (handle_outbound_grows s2) as Hg.
    assert (K : forall s3 s', grows s2 s3 -> grows s3 s' ->
              (exists w, s_out s3 = w ++ s_out s2 /\ starts_with_F w) ->
              exists w, s_out s' = w ++ s_out s1 /\
                (w = [] \/ starts_with_F w /\
                   exists s2' evs', RcOk s2 = RcOk s2' /\ s_out s2' = s_out s1 /\
                     s_ev s2' = rev evs' ++ s_ev s1 /\ block_processed props evs' /\ pre (s_ev s2') (s_ev s'))).
    { intros s3 s' G3 G' (w&Hw&Fw). destruct G' as ([x Hx]&Ge&_).
      exists (x ++ w). split; [rewrite Hx, Hw, H1; apply app_assoc|]. right. split.
      - destruct Fw as (w'&r&->). exists (x ++ w'), r. apply app_assoc.
      - exists s2, evs. repeat split; try assumption. eapply pre_trans; [apply G3|exact Ge]. }
    destruct (handle_outbound s2) as [[q2 s3]|e s3|]; cbn [res_grows snd] in *.
    + destruct q2; [apply (K s3 s3); [exact Hg|gr|exact Hs]|].
      apply (K s3 _ Hg); [apply turns_grows|exact Hs].
    + apply (K s3 s3); [exact Hg|gr|exact Hs].
    + exists []. split; [exact H1|left; reflexivity].
  - exists []. split; [exact H|left; reflexivity].
  - exists []. split; [reflexivity|left; reflexivity].
  - exists []. split; [reflexivity|left; reflexivity].
Qed.

(* what Exchange adds after the loop: nothing, or the error report "*** ..." *)
Lemma finish_echo n r s :
  x_wire (finish n r s) = concat (rev' (s_out s)) \/
  (r = XOther /\ x_wire (finish n r s) = concat (rev' (s_out s)) ++ 42 :: tl echo).
Proof.
  unfold finish. destruct r; cbn [x_wire]; try (left; reflexivity).
  right. split; [reflexivity|]. cbn [wr s_out]. rewrite !rev'_rev. cbn [rev]. rewrite concat_app. cbn [concat].
  rewrite app_nil_r. reflexivity.
Qed.

(* ================================================================================== *)
(* 10. SENDER HALF: a message is marked sent only after a byte 'F' or ';' has arrived   *)
(*     behind everything the session had read when the transfer was written             *)
(* ================================================================================== *)

(* ---------- state algebra ---------- *)
Lemma set_in_self s : set_in s (s_in s) = s.
Proof. destruct s; reflexivity. Qed.
Lemma ext_set_in s i k : s_in s = i ++ k -> ext k (set_in s i) = s.
Proof. intros H. unfold ext. cbn [set_in s_in]. rewrite <- H. change (set_in s (s_in s) = s). apply set_in_self. Qed.
Lemma ext_inv s' s1 j k : s' = ext k s1 -> s_in s' = j ++ k -> s1 = set_in s' j.
Proof.
  intros -> H. cbn [ext set_in s_in] in H. apply app_inv_tail in H. subst j.
  change (s1 = set_in s1 (s_in s1)). symmetry. apply set_in_self.
Qed.

Lemma not_ends_eot_cr x : ~ ends_eot (x ++ [13]).
Proof.
  intros [p H]. apply (f_equal (@rev N)) in H. rewrite !rev_app_distr in H. cbn in H. discriminate.
Qed.

(* ---------- steps that record no "sent" mark ---------- *)
Definition nm (s s' : sess) : Prop :=
  forall m, In (EvSetSent m false) (s_ev s') -> In (EvSetSent m false) (s_ev s).
Lemma nm_refl s : nm s s. Proof. intros m H; exact H. Qed.
Lemma nm_trans a b c : nm a b -> nm b c -> nm a c. Proof. intros H1 H2 m H. apply H1, H2, H. Qed.
Lemma nm_eqo a b : eqo a b -> nm a b. Proof. intros H m. rewrite (eqo_ev _ _ H). auto. Qed.
Lemma nm_ev a s e : (forall m, e <> EvSetSent m false) -> nm a s -> nm a (ev s e).
Proof. intros He H m [Hi|Hi]; [exfalso; eapply He; exact Hi|apply H, Hi]. Qed.

Definition res_nm {A} (s : sess) (r : res sess (A * sess)) : Prop :=
  match r with ROk (_, s') => nm s s' | RFail _ s' => nm s s' | RPanic => True end.
Lemma res_eqo_nm {A} s (r : res sess (A * sess)) : res_eqo s r -> res_nm s r.
Proof. destruct r as [[a s']|e s'|]; cbn; auto using nm_eqo. Qed.
Lemma res_nm_trans {A} s s1 (r : res sess (A * sess)) : nm s s1 -> res_nm s1 r -> res_nm s r.
Proof. intros G. destruct r as [[a s']|e s'|]; cbn; auto; intros; eapply nm_trans; eassumption. Qed.

Lemma fold_wr_ev {B} (f : B -> bytes) l : forall s, s_ev (fold_left (fun acc x => wr acc (f x)) l s) = s_ev s.
Proof. induction l as [|x l IH]; intros s; cbn [fold_left]; [reflexivity|]. rewrite IH. reflexivity. Qed.

Lemma outbound_nm s : nm s (snd (outbound s)).
Proof. unfold outbound. destruct (h_present (s_h s)); cbn [snd]; [apply nm_ev; [discriminate|]|]; apply nm_refl. Qed.
Lemma ho_propose_nm block s0 : nm s0 (ho_propose block s0).
Proof. intros m. unfold ho_propose. cbv zeta. cbn [wr s_ev]. rewrite (fold_wr_ev (fun l => l ++ [13])). auto. Qed.

Lemma write_compressed_ev s p off :
  match write_compressed s p off with
  | ROk s' => s_ev s' = s_ev s | RFail _ s' => s_ev s' = s_ev s | RPanic => True end.
Proof.
  unfold write_compressed. destruct ((off <? 0)%Z || (Z.of_nat (length (o_cdata p)) <? off)%Z); [reflexivity|].
  cbv zeta. destruct (Z.of_nat (length (o_cdata p)) <? 6)%Z; reflexivity.
Qed.

Lemma send_accepted_nm props : forall s ans sent,
  match send_accepted s props ans sent with
  | ROk (s', _) => nm s s' | RFail _ s' => nm s s' | RPanic => True end.
Proof.
  induction props as [|p ps IH]; intros s ans sent; cbn [send_accepted]; [apply nm_refl|].
  destruct ans as [|a r]; cbn zeta iota beta; [apply IH|].
  destruct a as [|[| |] off]; try apply IH.
  - pose proof (write_compressed_ev s p off) as Hw.
    destruct (write_compressed s p off) as [s1|e s1|]; [| |exact I].
    + assert (N1 : nm s s1) by (intros m; rewrite Hw; auto).
      specialize (IH s1 r ((o_mid p, false) :: sent)).
      destruct (send_accepted s1 ps r _) as [[s' l]|e s'|]; try exact I; eapply nm_trans; eassumption.
    + intros m; rewrite Hw; auto.
  - specialize (IH (ev (mark_gone s (o_mid p)) (EvSetDeferred (o_mid p))) r sent).
    assert (N1 : nm s (ev (mark_gone s (o_mid p)) (EvSetDeferred (o_mid p)))) by (apply nm_ev; [discriminate|intros m H; exact H]).
    destruct (send_accepted _ ps r sent) as [[s' l]|e s'|]; try exact I; eapply nm_trans; eassumption.
Qed.

Lemma mark_rej_nm sent : forall s, nm s (mark_rej sent s).
Proof.
  unfold mark_rej. induction sent as [|mr l IH]; intros s; cbn [fold_left]; [apply nm_refl|].
  eapply nm_trans; [|apply IH]. destruct (snd mr); [|apply nm_refl].
  apply nm_ev; [discriminate|intros m H; exact H].
Qed.

(* failing or quitting, my turn marks nothing *)
Lemma ho_peek_fail_nm sent s4 e s' : ho_peek sent s4 = RFail e s' -> nm s4 s'.
Proof.
  unfold ho_peek. cbv zeta. pose proof (mark_rej_nm sent s4) as N5.
  destruct (s_in (mark_rej sent s4)) as [|b r].
  { intros H; inversion H; subst. apply nm_ev; [discriminate|exact N5]. }
  destruct (negb ((b =? 70) || (b =? 59))); [|discriminate].
  pose proof (next_line_eqo true (mark_rej sent s4)) as Hn.
  destruct (next_line true (mark_rej sent s4)) as [[l sx]|e' sx|]; cbn [res_eqo] in Hn; [| |discriminate];
    intros H; inversion H; subst; (apply nm_ev; [discriminate|]);
    (eapply nm_trans; [exact N5|apply nm_eqo, Hn]).
Qed.

Lemma ho_transfer_fail_nm block reply s3 e s' : ho_transfer block reply s3 = RFail e s' -> nm s3 s'.
Proof.
  unfold ho_transfer. destruct (slice_from 3 reply) as [astr|]; [|discriminate].
  destruct (parse_answers _ astr _ []) as [ans|]; [|intros H; inversion H; subst; apply nm_refl].
  pose proof (send_accepted_nm block s3 ans []) as Hs.
  destruct (send_accepted s3 block ans []) as [[s4 sr]|e4 s4|]; [| |discriminate].
  - intros H. apply ho_peek_fail_nm in H. eapply nm_trans; eassumption.
  - intros H; inversion H; subst. exact Hs.
Qed.

Lemma handle_outbound_fail_nm s e s' : handle_outbound s = RFail e s' -> nm s s'.
Proof.
  rewrite handle_outbound_eq. pose proof (outbound_nm s) as N0.
  destruct (outbound s) as [props s0]. cbn [snd] in N0.
  destruct props as [|p ps]; [discriminate|]. cbv zeta. set (block := firstn _ _).
  pose proof (ho_propose_nm block s0) as N2.
  pose proof (read_reply_eqo (S (length (s_in (ho_propose block s0)))) (ho_propose block s0)) as Hr.
  destruct (read_reply _ (ho_propose block s0)) as [[reply s3]|e3 s3|]; cbn [res_eqo] in Hr; [| |discriminate].
  - intros H. apply ho_transfer_fail_nm in H.
    eapply nm_trans; [exact N0|]. eapply nm_trans; [exact N2|]. eapply nm_trans; [apply nm_eqo, Hr|exact H].
  - intros H; inversion H; subst. eapply nm_trans; [exact N0|]. eapply nm_trans; [exact N2|apply nm_eqo, Hr].
Qed.

Lemma ho_transfer_ok_noquit block reply s3 q s' : ho_transfer block reply s3 = ROk (q, s') -> q = false.
Proof.
  unfold ho_transfer. destruct (slice_from 3 reply) as [astr|]; [|discriminate].
  destruct (parse_answers _ astr _ []) as [ans|]; [|discriminate].
  destruct (send_accepted s3 block ans []) as [[s4 sr]|e4 s4|]; [| discriminate|discriminate].
  unfold ho_peek. cbv zeta. destruct (s_in (mark_rej (rev' sr) s4)) as [|b r]; [discriminate|].
  destruct (negb ((b =? 70) || (b =? 59))).
  - destruct (next_line true _) as [[l sx]|e' sx|]; discriminate.
  - intros H; inversion H; reflexivity.
Qed.

Lemma handle_outbound_quit_nm s s' : handle_outbound s = ROk (true, s') -> nm s s'.
Proof.
  rewrite handle_outbound_eq. pose proof (outbound_nm s) as N0.
  destruct (outbound s) as [props s0]. cbn [snd] in N0.
  destruct props as [|p ps].
  { cbv zeta. intros H; inversion H; subst. exact N0. }
  cbv zeta. destruct (read_reply _ _) as [[reply s3]|e3 s3|]; [|discriminate|discriminate].
  intros H. apply ho_transfer_ok_noquit in H. discriminate.
Qed.

(* the peer's turn marks nothing *)
Lemma answer_props_nm props : forall s seen acc, nm s (fst (answer_props s props seen acc)).
Proof.
  induction props as [|p r IH]; intros s seen acc; cbn [answer_props]; [apply nm_refl|].
  destruct (mem_bytes (i_mid p) seen || negb ((i_code p =? Wl2kProposal) || (i_code p =? GzipProposal))
            || negb (h_present (s_h s))); [apply IH|].
  eapply nm_trans; [|apply IH]. apply nm_ev; [discriminate|apply nm_refl].
Qed.

Lemma il_line_nm s1 props lines line :
  match il_line s1 props lines line with
  | IlDone (ROk (_, s')) => nm s1 s'
  | _ => True
  end.
Proof.
  unfold il_line. destruct (prefixb str_PM line); [exact I|].
  destruct line as [|c0 rest0]; [exact I|].
  destruct (c0 =? 59); [exact I|].
  destruct ((length (c0 :: rest0) <? 2)%nat || negb (c0 =? 70)); [exact I|].
  destruct rest0 as [|c1 r]; [exact I|].
  destruct (in_list c1 [65; 66; 67; 68]).
  { destruct (parse_proposal s1 (c0 :: c1 :: r)) as [p|e s'|]; exact I. }
  destruct (c1 =? 70); [intros m H; exact H|]. destruct (c1 =? 81); [apply nm_refl|].
  destruct (c1 =? 62); [|exact I].
  destruct (slice_from 2 (c0 :: c1 :: r)) as [ck|]; [|exact I]. cbv zeta.
  destruct (negb _); [exact I|].
  destruct props as [|p0 pr]; [intros m H; exact H|].
  pose proof (answer_props_nm (rev' (p0 :: pr)) (set_nomsgs s1 false) [] []) as Ha.
  destruct (answer_props (set_nomsgs s1 false) (rev' (p0 :: pr)) [] []) as [s2 answered]. cbn [fst] in Ha.
  intros m H. apply Ha in H. exact H.
Qed.

Lemma inbound_loop_nm : forall f s props lines, res_nm s (inbound_loop f s props lines).
Proof.
  induction f as [|f IH]; intros s props lines; [cbn; apply nm_refl|]. rewrite inbound_loop_eq.
  pose proof (next_line_eqo true s) as Hn.
  destruct (next_line true s) as [[line s1]|e s1|]; cbn [res_eqo] in Hn; [|cbn; apply nm_eqo, Hn|exact I].
  apply nm_eqo in Hn.
  pose proof (il_line_facts s1 props lines line) as Hf. pose proof (il_line_nm s1 props lines line) as Hm.
  destruct (il_line s1 props lines line) as [p l|[[a s']|e s'|]].
  - eapply res_nm_trans; [exact Hn|apply IH].
  - cbn. eapply nm_trans; eassumption.
  - cbn. destruct Hf as [_ ->]. exact Hn.
  - exact I.
Qed.

Lemma receive_accepted_nm : forall props s,
  match receive_accepted s props with RcOk s' => nm s s' | RcErr _ s' => nm s s' | _ => True end.
Proof.
  induction props as [|p r IH]; intros s; cbn [receive_accepted]; [apply nm_refl|].
  destruct (i_answer p); try apply IH.
  pose proof (read_compressed_eqo s p) as Hr.
  destruct (read_compressed s p) as [[cdata s1]|e s1|]; cbn [res_eqo] in Hr; [|apply nm_eqo, Hr|exact I].
  apply nm_eqo in Hr.
  destruct (proposal_message cdata) as [mid data|e|]; [|exact Hr|exact I].
  assert (N2 : forall b, nm s (ev s1 (EvProcess mid data b))) by (intros b; apply nm_ev; [discriminate|exact Hr]).
  destruct (mem_bytes mid (h_fail (s_h s1))); [apply N2|].
  specialize (IH (add_recv (ev s1 (EvProcess mid data (negb false))) (i_mid p))).
  destruct (receive_accepted _ r); try exact I; (eapply nm_trans; [|exact IH]); apply N2.
Qed.

Lemma handshake_nm s : res_nm s (lift1 (handshake s)).
Proof.
  unfold handshake, do_send_handshake. cbv zeta. destruct (s_master s).
  - pose proof (fold_wr_ev (fun l => l ++ [13]) (s_motd s) s) as E1. cbv beta in E1.
    set (s1 := fold_left (fun acc l => wr acc (l ++ [13])) (s_motd s) s) in *.
    assert (N1 : nm s s1) by (intros m; rewrite E1; auto).
    destruct (send_handshake (s_cfg s1) []) as [b|]; [|exact N1].
    match goal with |- context [read_handshake ?f ?s2 ?d] =>
      pose proof (read_handshake_eqo f s2 d) as Hr; destruct (read_handshake f s2 d) as [[d1 s3]|e s3|] end;
      cbn [res_eqo] in Hr; [| |exact I].
    + assert (N3 : nm s s3) by (eapply nm_trans; [exact N1|]; intros m; rewrite <- (eqo_ev _ _ Hr); auto).
      destruct (hd_have_sid d1 && negb (beq_bytes (hd_sid d1) [])); exact N3.
    + cbn. eapply nm_trans; [exact N1|]. intros m. rewrite <- (eqo_ev _ _ Hr). auto.
  - match goal with |- context [read_handshake ?f ?s2 ?d] =>
      pose proof (read_handshake_eqo f s2 d) as Hr; destruct (read_handshake f s2 d) as [[d1 s3]|e s3|] end;
      cbn [res_eqo] in Hr; [|cbn; apply nm_eqo, Hr|exact I].
    apply nm_eqo in Hr.
    destruct (hd_have_sid d1 && negb (beq_bytes (hd_sid d1) [])); [|exact Hr].
    destruct (send_handshake (s_cfg s3) (hd_challenge d1)); cbn; [|exact Hr]. intros m H. apply Hr. exact H.
Qed.

(* a reply line ends with CR *)
Lemma read_reply_cr : forall f s l s', read_reply f s = ROk (l, s') -> exists p0, s_in s = (p0 ++ [13]) ++ s_in s'.
Proof.
  induction f as [|f IH]; intros s l s' H; cbn [read_reply] in H; [discriminate|].
  destruct (next_line true s) as [[line s1]|e s1|] eqn:En; try discriminate.
  assert (Hc : exists p0, s_in s = (p0 ++ [13]) ++ s_in s1).
  { unfold next_line in En. destruct (read_until 13 (s_in s)) as [[raw rest]|] eqn:E; [|discriminate].
    destruct (true && err_line (clean_string raw)); inversion En; subst. cbn [set_in s_in].
    unfold read_until in E. destruct (split_at 13 (s_in s)) as [a [r'|]] eqn:E'; inversion E; subst.
    apply split_at_some in E'. exists raw. rewrite E', <- app_assoc. reflexivity. }
  destruct (prefixb [70; 83; 32] line); [inversion H; subst; exact Hc|].
  destruct (prefixb [59] line); [|discriminate].
  apply IH in H. destruct H as [p1 H]. destruct Hc as [p0 Hc].
  exists ((p0 ++ [13]) ++ p1). rewrite Hc, H, !app_assoc. reflexivity.
Qed.

(* a completed transfer phase has peeked at a byte 'F' or ';' that is still unread *)
Lemma ho_transfer_ok_peek block reply s3 q s' :
  ho_transfer block reply s3 = ROk (q, s') ->
  exists c k', s_in s3 = c :: k' /\ s_in s' = c :: k' /\ (c = 70 \/ c = 59).
Proof.
  unfold ho_transfer. destruct (slice_from 3 reply) as [astr|]; [|discriminate].
  destruct (parse_answers _ astr _ []) as [ans|]; [|discriminate].
  pose proof (send_accepted_facts block s3 ans []) as Hs.
  destruct (send_accepted s3 block ans []) as [[s4 sr]|e4 s4|]; [| discriminate|discriminate].
  destruct Hs as [Hi _]. unfold ho_peek. cbv zeta.
  pose proof (mark_rej_in (rev' sr) s4) as E5.
  destruct (s_in (mark_rej (rev' sr) s4)) as [|b r] eqn:E; [discriminate|].
  destruct (negb ((b =? 70) || (b =? 59))) eqn:Eb.
  - destruct (next_line true _) as [[l sx]|e' sx|]; discriminate.
  - intros H; inversion H; subst. exists b, r. cbn [ev s_in]. rewrite mark_sent_in, E.
    split; [congruence|]. split; [reflexivity|].
    apply negb_false_iff, orb_true_iff in Eb. destruct Eb as [Eb|Eb]; apply N.eqb_eq in Eb; auto.
Qed.

Lemma handle_outbound_ok_empty_nm s q s1 : handle_outbound s = ROk (q, s1) -> s_in s1 = [] -> nm s s1.
Proof.
  rewrite handle_outbound_eq. pose proof (outbound_nm s) as N0.
  destruct (outbound s) as [props s0]. cbn [snd] in N0.
  destruct props as [|p ps].
  { cbv zeta. intros H _; inversion H; subst. exact N0. }
  cbv zeta. destruct (read_reply _ _) as [[reply s3]|e3 s3|]; [|discriminate|discriminate].
  intros H E. apply ho_transfer_ok_peek in H. destruct H as (c&k'&_&H&_). congruence.
Qed.

Lemma handle_outbound_ok_cr s q s' mid :
  handle_outbound s = ROk (q, s') -> In (EvSetSent mid false) (s_ev s') -> ~ In (EvSetSent mid false) (s_ev s) ->
  exists p0 c k', s_in s = (p0 ++ [13]) ++ c :: k' /\ s_in s' = c :: k' /\ (c = 70 \/ c = 59).
Proof.
  rewrite handle_outbound_eq. pose proof (outbound_nm s) as N0. destruct (outbound_facts s) as [E0 _].
  destruct (outbound s) as [props s0]. cbn [snd] in *.
  destruct props as [|p ps].
  { cbv zeta. intros H Hi Hn; inversion H; subst. exfalso. apply Hn, N0, Hi. }
  cbv zeta. set (block := firstn _ _). destruct (ho_propose_facts block s0) as [E2 _].
  destruct (read_reply _ _) as [[reply s3]|e3 s3|] eqn:Er; [|discriminate|discriminate].
  intros H _ _. apply read_reply_cr in Er. destruct Er as [p0 Er].
  apply ho_transfer_ok_peek in H. destruct H as (c&k'&H3&H'&Hc).
  exists p0, c, k'. rewrite <- E0, <- E2, Er, H3. auto.
Qed.

(* THE MARKING TURN, CUT: had the input ended just before the peeked byte, the turn would
   have failed with a lost link and marked nothing *)
Lemma handle_outbound_mark s q s' mid :
  handle_outbound s = ROk (q, s') -> In (EvSetSent mid false) (s_ev s') -> ~ In (EvSetSent mid false) (s_ev s) ->
  exists p0 c k', s_in s = (p0 ++ [13]) ++ c :: k' /\ (c = 70 \/ c = 59) /\
    exists s1, handle_outbound (set_in s (p0 ++ [13])) = RFail EConnLost s1 /\ nm s s1 /\ lost s1 s'.
Proof.
  intros H Hi Hn. destruct (handle_outbound_ok_cr _ _ _ _ H Hi Hn) as (p0&c&k'&E&E'&Hc).
  exists p0, c, k'. split; [exact E|]. split; [exact Hc|].
  set (sS := set_in s (p0 ++ [13])). pose proof (ext_set_in s _ _ E) as Hx. fold sS in Hx.
  pose proof (handle_outbound_extx (c :: k') sS) as R. rewrite Hx, H in R. unfold relx in R.
  destruct (handle_outbound sS) as [[q1 s1]|[|] s1|] eqn:Es.
  - exfalso. destruct R as [R _]. inversion R; subst q1 s'.
    assert (E1 : s_in s1 = []).
    { cbn [ext set_in s_in] in E'. change (c :: k') with ([] ++ c :: k') in E' at 2. apply app_inv_tail in E'. exact E'. }
    apply (handle_outbound_ok_empty_nm _ _ _ Es E1) in Hi. apply Hn. exact Hi.
  - exists s1. split; [reflexivity|]. split; [|exact R]. apply handle_outbound_fail_nm in Es. exact Es.
  - destruct R as (s2&R&_). discriminate.
  - discriminate.
Qed.

(* ---------- what is left is a suffix (transfers) ---------- *)
Lemma read_frames_sfx : forall fuel inp buf sum cs d r, read_frames fuel inp buf sum cs = FOk d r -> sfx r inp.
Proof.
  induction fuel as [|f IH]; intros inp buf sum cs d r H; cbn [read_frames] in H; [discriminate|].
  destruct inp as [|c r0]; [discriminate|].
  destruct (c =? CHRSTX).
  - destruct r0 as [|l r1].
    + destruct (take_n 256 [] buf sum) as [[[b' r2] s']|] eqn:E; [|discriminate]. discriminate.
    + destruct (take_n _ r1 buf sum) as [[[b' r2] s']|] eqn:E; [|discriminate].
      apply IH in H. destruct (take_n_app [] _ _ _ _ _ _ _ E) as [_ Hs].
      eapply sfx_trans; [exact H|]. eapply sfx_trans; [exact Hs|]. exists [c; l]. reflexivity.
  - destruct (c =? CHREOT); [|discriminate].
    destruct r0 as [|k r1].
    + destruct (negb _); [discriminate|]. destruct (negb _); [discriminate|]. inversion H; subst. apply sfx_nil.
    + destruct (negb _); [discriminate|]. destruct (negb _); [discriminate|]. inversion H; subst.
      exists [c; k]. reflexivity.
Qed.

Lemma read_compressed_sfx s p cdata s' : read_compressed s p = ROk (cdata, s') -> sfx (s_in s') (s_in s).
Proof.
  unfold read_compressed. destruct (s_in s) as [|c r]; [discriminate|].
  destruct (c =? CHRSOH).
  - destruct r as [|hl r1]; [discriminate|].
    destruct (read_until CHRNUL r1) as [[title r2]|] eqn:E1; [|discriminate].
    destruct (read_until CHRNUL r2) as [[offs r3]|] eqn:E2; [|discriminate].
    destruct (negb (N.to_nat hl =? length title + length offs + 2)%nat); [discriminate|].
    set (digits := match offs with 45 :: d => d | 43 :: d => d | _ => offs end).
    destruct digits as [|x xs]; [discriminate|].
    destruct (num_of_digits (x :: xs) 0) as [v|]; [|discriminate].
    destruct (9223372036854775807 <? v); [discriminate|]. destruct (negb (v =? 0)); [discriminate|].
    destruct (read_frames _ r3 [] 0 (i_csize p)) as [d r4|e r4] eqn:E; [|discriminate].
    intros H; inversion H; subst. cbn [set_in s_in]. apply read_frames_sfx in E.
    eapply sfx_trans; [exact E|]. eapply sfx_trans; [eapply read_until_sfx; exact E2|].
    eapply sfx_trans; [eapply read_until_sfx; exact E1|]. exists [c; hl]. reflexivity.
  - destruct (c =? 42); [|discriminate].
    destruct (next_line true (set_in s r)) as [[l sx]|e sx|]; discriminate.
Qed.

Lemma receive_accepted_sfx : forall props s s', receive_accepted s props = RcOk s' -> sfx (s_in s') (s_in s).
Proof.
  induction props as [|p r IH]; intros s s' H; cbn [receive_accepted] in H; [inversion H; apply sfx_refl|].
  destruct (i_answer p); try (apply IH; exact H).
  destruct (read_compressed s p) as [[cdata s1]|e s1|] eqn:E; try discriminate.
  destruct (proposal_message cdata) as [mid data|e|]; try discriminate.
  destruct (mem_bytes mid (h_fail (s_h s1))); [discriminate|].
  apply IH in H. cbn [add_recv ev s_in] in H. eapply sfx_trans; [exact H|]. eapply read_compressed_sfx; exact E.
Qed.

Lemma handle_outbound_sfx s q s' : handle_outbound s = ROk (q, s') -> sfx (s_in s') (s_in s).
Proof. intros H. pose proof (handle_outbound_extx [] s) as R. rewrite H in R. apply R. Qed.

Lemma inbound_loop_sfx s a s' :
  inbound_loop (S (length (s_in s))) s [] [] = ROk (a, s') -> sfx (s_in s') (s_in s).
Proof.
  intros H. pose proof (inbound_loop_ext [] (S (length (s_in s))) (S (length (s_in s))) s [] []) as R.
  rewrite H in R. apply R; unfold inlen; cbn [length]; lia.
Qed.

Lemma event_eq_dec : forall a b : event, {a = b} + {a <> b}.
Proof.
  assert (Hb : forall a b : bytes, {a = b} + {a <> b}) by (apply list_eq_dec, N.eq_dec).
  decide equality; try apply Hb; try apply Bool.bool_dec; decide equality.
Qed.

Lemma lost_nomark s1 s' e : e <> EvBlockEnd -> lost s1 s' -> ~ In e (s_ev s') -> ~ In e (s_ev s1).
Proof.
  intros He (_&[[x Hx]|(e0&E&[x Hx])]&_) Hn Hi; apply Hn; rewrite Hx; apply in_or_app; right; [exact Hi|].
  rewrite E in Hi. destruct Hi as [Hi|Hi]; [congruence|exact Hi].
Qed.

(* ---------- the induction over the turns ---------- *)
Lemma turns_sent mid : forall f2 (my : bool) s,
  In (EvSetSent mid false) (s_ev (snd (turns f2 my s))) -> ~ In (EvSetSent mid false) (s_ev s) ->
  exists i0 c i2, s_in s = (i0 ++ [13]) ++ c :: i2 /\ (c = 70 \/ c = 59) /\
    forall f1, (2 * (length i0 + 1) + (if my then 2 else 1) <= f1)%nat ->
      fst (turns f1 my (set_in s (i0 ++ [13]))) = XConnLost /\
      ~ In (EvSetSent mid false) (s_ev (snd (turns f1 my (set_in s (i0 ++ [13]))))) /\
      lost (snd (turns f1 my (set_in s (i0 ++ [13])))) (snd (turns f2 my s)).
Proof.
  assert (Hmk : EvSetSent mid false <> EvBlockEnd) by discriminate.
  induction f2 as [|f2 IH]; intros my s Hin Hn; [cbn in Hin; contradiction|].
  destruct my.
  - (* my turn *)
    cbn [turns] in Hin |- *.
    destruct (handle_outbound s) as [[q s']|e s'|] eqn:Eh.
    + destruct (in_dec event_eq_dec (EvSetSent mid false) (s_ev s')) as [Hm|Hm].
      * destruct (handle_outbound_mark _ _ _ _ Eh Hm Hn) as (p0&c&k'&E&Hc&s1&Es&Nm&L).
        exists p0, c, k'. split; [exact E|]. split; [exact Hc|].
        intros f1 Hf. destruct f1 as [|f1]; [lia|]. cbn [turns]. rewrite Es. cbn [xerr fst snd].
        split; [reflexivity|]. split; [intros X; apply Hn, Nm, X|].
        destruct q; [exact L|]. eapply lost_grows; [exact L|apply turns_grows].
      * destruct q; [cbn in Hin; contradiction|].
        destruct (IH false s' Hin Hm) as (i0'&c&i2&E'&Hc&IHs).
        destruct (handle_outbound_sfx _ _ _ Eh) as [p Ep].
        assert (E : s_in s = ((p ++ i0') ++ [13]) ++ c :: i2) by (rewrite Ep, E', !app_assoc; reflexivity).
        exists (p ++ i0'), c, i2. split; [exact E|]. split; [exact Hc|].
        intros f1 Hf. destruct f1 as [|f1]; [lia|]. cbn [turns].
        pose proof (ext_set_in s _ _ E) as Hx. set (sS := set_in s ((p ++ i0') ++ [13])) in *.
        pose proof (handle_outbound_extx (c :: i2) sS) as R. rewrite Hx, Eh in R. unfold relx in R.
        destruct (handle_outbound sS) as [[q1 s1]|[|] s1|].
        -- destruct R as [R _]. injection R as Hq H1. subst q1. rewrite (ext_inv _ _ _ _ H1 E').
           apply IHs. rewrite !app_length in *. cbn [length] in *. lia.
        -- cbn [xerr fst snd]. split; [reflexivity|]. split; [eapply lost_nomark; eassumption|].
           eapply lost_grows; [exact R|apply turns_grows].
        -- destruct R as (s2&R&_). discriminate.
        -- discriminate.
    + cbn [snd] in Hin. apply handle_outbound_fail_nm in Eh. apply Eh in Hin. contradiction.
    + cbn [snd] in Hin. contradiction.
  - (* the peer's turn *)
    cbn [turns] in Hin |- *.
    destruct (inbound_loop (S (length (s_in s))) s [] []) as [[[q props] sA]|e sA|] eqn:Ei.
    + pose proof (inbound_loop_nm (S (length (s_in s))) s [] []) as NA. rewrite Ei in NA. cbn [res_nm] in NA.
      pose proof (receive_accepted_nm props sA) as NB.
      destruct (receive_accepted sA props) as [sB|e sB| |] eqn:Erc; cbn [snd] in Hin.
      * assert (Hm : ~ In (EvSetSent mid false) (s_ev sB)) by (intros X; apply Hn, NA, NB, X).
        destruct q; [contradiction|].
        destruct (IH true sB Hin Hm) as (i0'&c&i2&E'&Hc&IHs).
        destruct (inbound_loop_sfx _ _ _ Ei) as [pA EA]. destruct (receive_accepted_sfx _ _ _ Erc) as [pB EB].
        pose proof (TermP.inbound_loop_ok _ _ _ _ _ _ _ Ei) as LA. unfold inlen in LA.
        assert (E : s_in s = ((pA ++ pB ++ i0') ++ [13]) ++ c :: i2) by (rewrite EA, EB, E', !app_assoc; reflexivity).
        exists (pA ++ pB ++ i0'), c, i2. split; [exact E|]. split; [exact Hc|].
        intros f1 Hf. destruct f1 as [|f1]; [lia|]. cbn [turns].
        pose proof (ext_set_in s _ _ E) as Hx. set (sS := set_in s ((pA ++ pB ++ i0') ++ [13])) in *.
        assert (R : relx (c :: i2) sS (inbound_loop (S (length (s_in sS))) sS [] [])
                                     (inbound_loop (S (length (s_in s))) (ext (c :: i2) sS) [] [])).
        { apply inbound_loop_ext; unfold inlen; [lia|]. rewrite E. unfold sS. cbn [set_in s_in].
          rewrite (app_length (_ ++ [13])). lia. }
        rewrite Hx, Ei in R. unfold relx in R.
        destruct (inbound_loop (S (length (s_in sS))) sS [] []) as [[[q1 props1] sA1]|[|] sA1|].
        -- destruct R as [R _]. injection R as Hq Hp H2. subst q1 props1.
           assert (EA1 : s_in sA1 = (pB ++ i0') ++ [13]).
           { rewrite H2 in EB. cbn [ext set_in s_in] in EB. rewrite E' in EB.
             rewrite !app_assoc in EB. apply app_inv_tail in EB. exact EB. }
           pose proof (receive_accepted_ext (c :: i2) props sA1) as R2. rewrite <- H2, Erc in R2.
           destruct R2 as [R2|R2]; [exfalso; rewrite EA1 in R2; eapply not_ends_eot_cr; exact R2|].
           destruct (receive_accepted sA1 props) as [sB1|[|] sB1| |].
           ++ destruct R2 as [R2 _]. injection R2 as H0. rewrite (ext_inv _ _ _ _ H0 E').
              apply IHs. rewrite EA, EB in LA. rewrite !app_length in *. cbn [length] in *. lia.
           ++ cbn [xerr fst snd]. cbn [rc_lost] in R2. split; [reflexivity|].
              split; [eapply lost_nomark; eassumption|]. eapply lost_grows; [exact R2|apply turns_grows].
           ++ destruct R2 as (s2&R2&_). discriminate.
           ++ discriminate.
           ++ discriminate.
        -- cbn [xerr fst snd]. cbn [res_lost] in R. split; [reflexivity|].
           assert (HmA : ~ In (EvSetSent mid false) (s_ev sA)) by (intros X; apply Hn, NA, X).
           split; [eapply lost_nomark; eassumption|].
           eapply lost_grows; [exact R|]. pose proof (receive_accepted_grows props sA) as G. rewrite Erc in G.
           eapply grows_trans; [exact G|apply turns_grows].
        -- destruct R as (s2&R&_). discriminate.
        -- discriminate.
      * apply NB, NA in Hin. contradiction.
      * apply NA in Hin. contradiction.
      * apply NA in Hin. contradiction.
    + cbn [snd] in Hin. pose proof (inbound_loop_nm (S (length (s_in s))) s [] []) as NA. rewrite Ei in NA.
      apply NA in Hin. contradiction.
    + cbn [snd] in Hin. contradiction.
Qed.

Lemma finish_events n r s : x_events (finish n r s) = rev (s_ev s).
Proof. unfold finish. cbn [x_events]. rewrite rev'_rev. destruct r; reflexivity. Qed.

Lemma finish_res n r s : x_res (finish n r s) = r.
Proof. reflexivity. Qed.

(* SENDER HALF.  If a session reports the message mid sent, its input contains a byte c = 'F'
   or ';' -- the first byte of the peer's next command -- such that the same session cut just
   before c ends with a lost link and has NOT reported mid sent; what the cut session wrote is
   an initial part of what the full session wrote.  (The bytes before c end with the CR of the
   peer's FS answer.) *)
Theorem sent_only_after_next_command cfg (I : bytes) mid :
  In (EvSetSent mid false) (x_events (exchange cfg I)) ->
  exists I1 c I2, I = I1 ++ c :: I2 /\ (c = 70 \/ c = 59) /\
    x_res (exchange cfg I1) = XConnLost /\
    ~ In (EvSetSent mid false) (x_events (exchange cfg I1)) /\
    prefix (x_wire (exchange cfg I1)) (x_wire (exchange cfg I)).
Proof.
  unfold exchange at 1. cbv zeta.
  set (s0 := {| s_in := I; s_out := []; s_ev := []; s_h := c_handler cfg; s_master := c_master cfg;
                s_remote_nomsgs := false; s_sent := []; s_recv := []; s_cfg := c_hs cfg; s_motd := c_motd cfg |}).
  set (s1 := if h_present (c_handler cfg) then ev s0 EvPrepare else s0).
  assert (N1 : forall m, ~ In (EvSetSent m false) (s_ev s1)).
  { intros m. unfold s1. destruct (h_present (c_handler cfg)); cbn; intuition discriminate. }
  assert (E1 : s_in s1 = I) by (unfold s1; destruct (h_present (c_handler cfg)); reflexivity).
  destruct (h_present (c_handler cfg) && h_prepare_err (c_handler cfg)) eqn:Epe.
  { rewrite finish_events, <- in_rev. intros H. exfalso. eapply N1, H. }
  pose proof (handshake_nm s1) as Nh.
  destruct (handshake s1) as [s2|e s2|] eqn:Eh; cbn [lift1 res_nm] in Nh.
  2:{ rewrite finish_events, <- in_rev. intros H. exfalso. eapply N1, Nh, H. }
  2:{ rewrite finish_events, <- in_rev. intros H. exfalso. eapply N1, H. }
  set (f2 := (2 * length I + length (h_outbox (c_handler cfg)) + 8)%nat).
  destruct (turns f2 (negb (c_master cfg)) s2) as [r s3] eqn:Et.
  rewrite finish_events, <- in_rev. intros Hin.
  assert (Hin' : In (EvSetSent mid false) (s_ev (snd (turns f2 (negb (c_master cfg)) s2)))) by (rewrite Et; exact Hin).
  destruct (turns_sent mid f2 _ s2 Hin' ltac:(intros X; eapply N1, Nh, X)) as (i0&c&i2&E2&Hc&Hs).
  assert (Sf : sfx (s_in s2) (s_in s1)).
  { pose proof (handshake_extx [] s1) as R. rewrite Eh in R. apply R. }
  destruct Sf as [p Ep].
  assert (E : s_in s1 = (p ++ i0 ++ [13]) ++ c :: i2) by (rewrite Ep, E2, !app_assoc; reflexivity).
  exists (p ++ i0 ++ [13]), c, i2. split; [rewrite <- E1; exact E|]. split; [exact Hc|].
  (* the cut run *)
  unfold exchange. cbv zeta. rewrite Epe.
  change {| s_in := p ++ i0 ++ [13]; s_out := []; s_ev := []; s_h := c_handler cfg; s_master := c_master cfg;
            s_remote_nomsgs := false; s_sent := []; s_recv := []; s_cfg := c_hs cfg; s_motd := c_motd cfg |}
    with (set_in s0 (p ++ i0 ++ [13])).
  replace (if h_present (c_handler cfg) then ev (set_in s0 (p ++ i0 ++ [13])) EvPrepare else set_in s0 (p ++ i0 ++ [13]))
    with (set_in s1 (p ++ i0 ++ [13])) by (unfold s1; destruct (h_present (c_handler cfg)); reflexivity).
  change {| s_in := I; s_out := []; s_ev := []; s_h := c_handler cfg; s_master := c_master cfg;
            s_remote_nomsgs := false; s_sent := []; s_recv := []; s_cfg := c_hs cfg; s_motd := c_motd cfg |} with s0.
  fold s1. rewrite Eh. fold f2. rewrite Et.
  pose proof (ext_set_in s1 _ _ E) as Hx. set (s1S := set_in s1 (p ++ i0 ++ [13])) in *.
  pose proof (handshake_extx (c :: i2) s1S) as R. rewrite Hx, Eh in R.
  pose proof (handshake_nm s1S) as NhS.
  destruct (handshake s1S) as [s2S|[|] s2S|]; cbn [lift1 relx res_nm] in R, NhS.
  - destruct R as [R _]. injection R as H2. rewrite (ext_inv _ _ (i0 ++ [13]) _ H2) by (rewrite E2; reflexivity).
    set (f1 := (2 * length (p ++ i0 ++ [13%N]) + length (h_outbox (c_handler cfg)) + 8)%nat).
    destruct (Hs f1) as (T1&T2&T3).
    { unfold f1. rewrite !app_length. cbn [length]. destruct (negb (c_master cfg)); lia. }
    destruct (turns f1 (negb (c_master cfg)) (set_in s2 (i0 ++ [13]))) as [r1 s3S]. cbn [fst snd] in *.
    rewrite Et in T3. cbn [snd] in T3. subst r1.
    split; [reflexivity|]. split; [rewrite finish_events, <- in_rev; exact T2|].
    apply (finish_lost (length (p ++ i0 ++ [13])) (length I) r) in T3. apply T3.
  - cbn [xerr]. split; [reflexivity|]. split.
    + rewrite finish_events, <- in_rev. intros X. apply NhS in X. eapply N1. exact X.
    + cbn [res_lost] in R.
      assert (L : lost s2S s3).
      { eapply lost_grows; [exact R|]. replace s3 with (snd (turns f2 (negb (c_master cfg)) s2)) by (rewrite Et; reflexivity).
        apply turns_grows. }
      apply (finish_lost (length (p ++ i0 ++ [13])) (length I) r) in L. apply L.
  - destruct R as (s2'&R&_). discriminate.
  - discriminate.
Qed.

(* in the shape of the property: for every cut position at or before the last byte that precedes
   the peer's next command, ... is what `sent_only_after_next_command` gives for that one cut; the
   cut run and every shorter one are related by exchange_cut. *)

(* ================================================================================== *)
(* 11. TWO-PARTY SAFETY (Properties/C02.v, C02_safety_statement): not proved here.      *)
(*     As stated it is FALSE: nothing ties the MID a proposal announces to the MID      *)
(*     inside its compressed message.                                                   *)
(* ================================================================================== *)
Definition two_party_safety_as_stated : Prop :=
  forall (a b : side_cfg) (in_a : bytes) (k : nat) (mid : bytes),
    let oa := exchange a in_a in
    In (EvSetSent mid false) (x_events oa) ->
    in_a = firstn (length in_a) (x_wire (exchange b (firstn k (x_wire oa)))) ->
    exists data, In (EvProcess mid data true) (x_events (exchange b (firstn k (x_wire oa)))).

(* the outbox entry announces MID "XYZ" but carries the message whose Mid header is "ABC":
   the sender reports XYZ sent, the receiver stores ABC *)
Definition cx_bad_prop : oprop :=
  {| o_mid := [88;89;90]; o_title := [116]; o_plain_title := [116]; o_size := 50; o_cdata := cx_cdata |}.

Example two_party_safety_as_stated_is_false : ~ two_party_safety_as_stated.
Proof.
  intros H.
  pose (a := cx_side false [cx_bad_prop] [] []). pose (b := cx_side true [] [] []).
  pose (in_a := x_wire (exchange b []) ++ [70;83;32;43;13; 70;70;13]).
  specialize (H a b in_a 1000%nat [88;89;90]). cbv zeta in H.
  destruct H as [data H].
  - vm_compute. do 2 right. left. reflexivity.
  - vm_compute. reflexivity.
  - vm_compute in H. repeat (destruct H as [H|H]; [discriminate|]). exact H.
Qed.

(* the natural repair (a hypothesis on a's outbox; NOT proved here): *)
Definition outbox_wf (h : hstate) : Prop :=
  forall p, In p (h_outbox h) -> exists data, proposal_message (o_cdata p) = MOk (o_mid p) data.
Definition two_party_safety_corrected : Prop :=
  forall (a b : side_cfg) (in_a : bytes) (k : nat) (mid : bytes),
    c_master a = negb (c_master b) -> outbox_wf (c_handler a) ->
    let oa := exchange a in_a in
    In (EvSetSent mid false) (x_events oa) ->
    in_a = firstn (length in_a) (x_wire (exchange b (firstn k (x_wire oa)))) ->
    exists data, In (EvProcess mid data true) (x_events (exchange b (firstn k (x_wire oa)))).

Print Assumptions exchange_cut.
Print Assumptions cut_after_eot_counterexample.
Print Assumptions receiver_half.
Print Assumptions receive_accepted_silent.
Print Assumptions turns_sent.
Print Assumptions sent_only_after_next_command.
Print Assumptions two_party_safety_as_stated_is_false.
