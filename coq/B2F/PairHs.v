(* B2F/PairHs.v -- two sides whose handshake configuration consists of plain printable text accept
   each other's greeting: hs_compat (B2F/PairDefs.v) holds for every such pair of configurations. *)
From Coq Require Import List NArith ZArith Bool Lia ZifyN ZifyNat ZifyBool.
From Verif Require Import Base.Bytes Base.BytesP Base.Utf8 gen.Tables Lzhuf.Dec Msg.Message B2F.Secure B2F.Side B2F.SideP
  B2F.TermP B2F.CodecP B2F.CutP B2F.GrammarP B2F.PairDefs B2F.PairLines.
Import ListNotations.
Open Scope N_scope.

(* printable ASCII without the space *)
Definition text_ok (l : bytes) : Prop := Forall (fun b => 33 <= b /\ b <= 126) l.
Definition hs_cfg_ok (h : hs_cfg) : Prop :=
  hs_fw h <> [] /\ Forall (fun a => a <> [] /\ text_ok a) (hs_fw h) /\
  text_ok (hs_name h) /\ text_ok (hs_version h) /\ text_ok (hs_target h) /\ text_ok (hs_mycall h) /\ text_ok (hs_locator h).

(* ---------- the greeting as an explicit byte string ---------- *)
Definition fw_text (fw : list bytes) : bytes := concat (map (fun a => 32 :: a) fw).
Definition sid_of (cfg : hs_cfg) : bytes :=
  if hs_gzip cfg then [66; 50; 70; 72; 77; 71; 36] else [66; 50; 70; 72; 77; 36].
Definition line1 (cfg : hs_cfg) : bytes := 59 :: 70 :: 87 :: 58 :: fw_text (hs_fw cfg).
Definition line2 (cfg : hs_cfg) : bytes :=
  91 :: (hs_name cfg ++ 45 :: hs_version cfg) ++ 45 :: sid_of cfg ++ [93].
Definition line3 (cfg : hs_cfg) : bytes :=
  59 :: 32 :: hs_target cfg ++ 32 :: 68 :: 69 :: 32 :: hs_mycall cfg ++ 32 :: 40 :: hs_locator cfg ++
  41 :: (if hs_master cfg then [62] else []).
Definition hello (cfg : hs_cfg) : bytes := line1 cfg ++ 13 :: line2 cfg ++ 13 :: line3 cfg ++ [13].

Lemma fw_items_nil cb fw : forall i, fw_items [] cb i fw = fw_text fw.
Proof.
  induction fw as [|a r IH]; intros i; [reflexivity|].
  cbn [fw_items]. rewrite IH. unfold fw_text. cbn [map concat]. destruct i; reflexivity.
Qed.

Lemma send_hello cfg : send_handshake cfg [] = Some (hello cfg).
Proof.
  assert (H : forall cb, Some ((str_FW ++ fw_items [] cb 0 (hs_fw cfg) ++ [CR]) ++ sid_line cfg ++ de_line cfg)
                         = Some (hello cfg)).
  { intros cb. rewrite fw_items_nil. f_equal.
    unfold hello, line1, line2, line3, sid_line, de_line, str_FW, str_DE, CR, sid_of.
    destruct (hs_gzip cfg), (hs_master cfg);
      [change (firstn (length localSID - 1) localSID ++ sGzip ++ lastn 1 localSID) with [66; 50; 70; 72; 77; 71; 36]
      |change (firstn (length localSID - 1) localSID ++ sGzip ++ lastn 1 localSID) with [66; 50; 70; 72; 77; 71; 36]
      |change localSID with [66; 50; 70; 72; 77; 36]
      |change localSID with [66; 50; 70; 72; 77; 36]];
      repeat (rewrite <- app_assoc; cbn [app]); reflexivity. }
  unfold send_handshake. destruct (hs_cb cfg); apply H.
Qed.

(* ---------- bytes of a line ---------- *)
Definition pr (b : N) : Prop := 32 <= b /\ b <= 126.

Lemma okb_text b : 33 <= b /\ b <= 126 -> okb b = true.
Proof. intros H. unfold okb, is_space_rune. lia. Qed.

Lemma text_pr l : text_ok l -> Forall pr l.
Proof. apply Forall_impl. intros a H. unfold pr. lia. Qed.

Lemma pr_notin c l : c < 32 -> Forall pr l -> ~ In c l.
Proof. intros Hc H Hi. rewrite Forall_forall in H. specialize (H c Hi). unfold pr in H. lia. Qed.

Lemma fw_pr fw : Forall (fun a => a <> [] /\ text_ok a) fw -> Forall pr (fw_text fw).
Proof.
  induction 1 as [|a r [_ Ha] _ IH]; [constructor|].
  unfold fw_text. cbn [map concat]. apply Forall_cons; [unfold pr; lia|].
  apply Forall_app. split; [apply text_pr; exact Ha|exact IH].
Qed.

Lemma fw_head fw : fw <> [] -> exists m, fw_text fw = 32 :: m.
Proof. destruct fw as [|a r]; [congruence|]. intros _. eexists. reflexivity. Qed.

Lemma fw_last fw : fw <> [] -> Forall (fun a => a <> [] /\ text_ok a) fw ->
  exists y, (33 <= y /\ y <= 126) /\ ends_with y (fw_text fw).
Proof.
  intros Hne H. destruct (exists_last Hne) as [fw' [a ->]].
  apply Forall_app in H. destruct H as [_ H]. inversion H as [|? ? [Ha Ht] _]; subst.
  destruct (exists_last Ha) as [a' [y ->]].
  apply Forall_app in Ht. destruct Ht as [_ Ht]. inversion Ht as [|? ? Hy _]; subst.
  exists y. split; [exact Hy|].
  unfold fw_text. rewrite map_app, concat_app. apply ends_with_app. cbn [map concat].
  rewrite app_nil_r. apply ends_with_cons, ends_with_app, ends_with_one.
Qed.

Ltac prs :=
  repeat first [ apply Forall_nil | apply Forall_cons; [unfold pr; lia|] | apply Forall_app; split
               | apply text_pr; assumption | apply fw_pr; assumption ].

Lemma line1_pr cfg : hs_cfg_ok cfg -> Forall pr (line1 cfg).
Proof. intros [_ [H _]]. unfold line1. prs. Qed.

Lemma sid_pr cfg : Forall pr (sid_of cfg).
Proof. unfold sid_of. destruct (hs_gzip cfg); prs. Qed.

Lemma line2_pr cfg : hs_cfg_ok cfg -> Forall pr (line2 cfg).
Proof. intros [_ [_ [H1 [H2 _]]]]. unfold line2. prs. apply sid_pr. Qed.

Lemma line3_pr cfg : hs_cfg_ok cfg -> Forall pr (line3 cfg).
Proof. intros [_ [_ [_ [_ [H1 [H2 H3]]]]]]. unfold line3. destruct (hs_master cfg); prs. Qed.

Lemma line1_clean cfg : hs_cfg_ok cfg -> clean_string (line1 cfg) = line1 cfg.
Proof.
  intros [Hne [H _]]. destruct (fw_last _ Hne H) as [y [Hy He]]. unfold line1.
  apply (clean_string_id 59 _ y); [reflexivity|apply okb_text; exact Hy|].
  do 4 apply ends_with_cons. exact He.
Qed.

Lemma line2_clean cfg : clean_string (line2 cfg) = line2 cfg.
Proof.
  unfold line2. apply (clean_string_id 91 _ 93); [reflexivity|reflexivity|].
  apply ends_with_cons, ends_with_app, ends_with_cons, ends_with_app, ends_with_one.
Qed.

Lemma line3_ends cfg : ends_with (if hs_master cfg then 62 else 41) (line3 cfg).
Proof.
  unfold line3. do 2 apply ends_with_cons. apply ends_with_app. do 4 apply ends_with_cons.
  apply ends_with_app. do 2 apply ends_with_cons. apply ends_with_app.
  destruct (hs_master cfg); [apply ends_with_cons|]; apply ends_with_one.
Qed.

Lemma line3_clean cfg : clean_string (line3 cfg) = line3 cfg.
Proof.
  pose proof (line3_ends cfg) as He. unfold line3 in *.
  apply (clean_string_id 59 _ (if hs_master cfg then 62 else 41)); [reflexivity|destruct (hs_master cfg); reflexivity|exact He].
Qed.

(* ---------- one step of read_handshake on a clean line ---------- *)
Lemma next_line_false s l rest : ~ In 13 l -> clean_string l = l -> s_in s = l ++ 13 :: rest ->
  next_line false s = ROk (l, set_in s rest).
Proof.
  intros Hn Hc Hs. unfold next_line. rewrite Hs, read_until_notin by exact Hn. cbv zeta. rewrite Hc. reflexivity.
Qed.

Lemma rh_step f s d x m rest :
  s_in s = (x :: m) ++ 13 :: rest -> Forall pr (x :: m) -> clean_string (x :: m) = x :: m -> x <> 70 ->
  read_handshake (S f) s d =
    if prefixb [91] (x :: m) && suffixb [93] (x :: m) then
      match parse_sid (x :: m) with
      | None => RFail EOther (set_in s rest)
      | Some sid =>
          if containsb sFBComp2 sid
          then read_handshake f (set_in s rest) {| hd_sid := sid; hd_have_sid := true; hd_challenge := hd_challenge d |}
          else RFail EOther (set_in s rest)
      end
    else if prefixb str_FWp (x :: m) then
      (if prefixb str_FWfull (x :: m) then read_handshake f (set_in s rest) d else RFail EOther (set_in s rest))
    else if prefixb str_PQ (x :: m) then
      (if (length (x :: m) <? 5)%nat then RFail EOther (set_in s rest)
       else match slice_from 5 (x :: m) with
            | None => RPanic
            | Some c => read_handshake f (set_in s rest)
                          {| hd_sid := hd_sid d; hd_have_sid := hd_have_sid d; hd_challenge := c |}
            end)
    else if suffixb [62] (x :: m) then ROk (d, set_in s rest)
    else read_handshake f (set_in s rest) d.
Proof.
  intros Hs Hp Hc Hx. cbn [read_handshake].
  rewrite (next_line_false s (x :: m) rest (pr_notin 13 _ eq_refl Hp) Hc Hs).
  rewrite Hs. cbn [app]. apply N.eqb_neq in Hx. rewrite Hx. cbn [andb]. reflexivity.
Qed.

Lemma suffixb_one y z l : ends_with z l -> suffixb [y] l = (y =? z).
Proof. intros [m ->]. unfold suffixb. rewrite rev_app_distr. cbn [rev app prefixb]. apply andb_true_r. Qed.

(* ---------- the SID line ---------- *)
Lemma take_until_lf_id l : ~ In 10 l -> take_until_lf l = l.
Proof.
  induction l as [|x l IH]; intros H; [reflexivity|]. cbn [take_until_lf].
  assert (E : (x =? 10) = false) by (apply N.eqb_neq; intros ->; apply H; left; reflexivity).
  rewrite E, IH; [reflexivity|]. intros Hi. apply H. right. exact Hi.
Qed.

Lemma sid_at_gen pre sid : ~ In 10 (pre ++ 45 :: sid ++ [93]) -> ~ In 45 sid ->
  sid_at (pre ++ 45 :: sid ++ [93]) = Some (upper sid).
Proof.
  intros H10 H45. unfold sid_at. rewrite take_until_lf_id by exact H10. rewrite rev'_rev.
  assert (E : rev (pre ++ 45 :: sid ++ [93]) = 93 :: rev sid ++ 45 :: rev pre).
  { rewrite rev_app_distr. cbn [rev]. rewrite rev_app_distr. cbn [rev app]. rewrite <- !app_assoc. reflexivity. }
  rewrite E. cbn [split_at]. change (93 =? 93) with true. cbv iota.
  rewrite split_at_notin by (intros Hi; apply H45, in_rev; exact Hi).
  rewrite rev'_rev, rev_involutive. reflexivity.
Qed.

Lemma parse_sid_line2 cfg : hs_cfg_ok cfg -> parse_sid (line2 cfg) = Some (sid_of cfg).
Proof.
  intros H. pose proof (line2_pr cfg H) as Hp. unfold line2 in *. cbn [parse_sid].
  change (91 =? 91) with true. cbv iota.
  rewrite sid_at_gen.
  - unfold sid_of. destruct (hs_gzip cfg); reflexivity.
  - inversion Hp; subst. apply pr_notin; [reflexivity|assumption].
  - unfold sid_of. destruct (hs_gzip cfg); cbn [In]; intros Hi;
      repeat (destruct Hi as [Hi|Hi]; [discriminate|]); exact Hi.
Qed.

(* ---------- the three kinds of line ---------- *)
Lemma rh_line1 f s d cfg rest : hs_cfg_ok cfg -> s_in s = line1 cfg ++ 13 :: rest ->
  read_handshake (S f) s d = read_handshake f (set_in s rest) d.
Proof.
  intros H Hs. pose proof (line1_pr cfg H) as Hp. pose proof (line1_clean cfg H) as Hc.
  destruct (fw_head (hs_fw cfg) (proj1 H)) as [m Em]. unfold line1 in *. rewrite Em in *.
  rewrite (rh_step f s d _ _ rest Hs Hp Hc) by discriminate. reflexivity.
Qed.

Lemma rh_line2 f s d cfg rest : hs_cfg_ok cfg -> s_in s = line2 cfg ++ 13 :: rest ->
  read_handshake (S f) s d =
  read_handshake f (set_in s rest) {| hd_sid := sid_of cfg; hd_have_sid := true; hd_challenge := hd_challenge d |}.
Proof.
  intros H Hs. pose proof (line2_pr cfg H) as Hp. pose proof (line2_clean cfg) as Hc.
  pose proof (parse_sid_line2 cfg H) as Hq.
  assert (He : ends_with 93 (line2 cfg)).
  { unfold line2. apply ends_with_cons, ends_with_app, ends_with_cons, ends_with_app, ends_with_one. }
  pose proof (suffixb_one 93 93 _ He) as Hsf.
  unfold line2 in *.
  rewrite (rh_step f s d _ _ rest Hs Hp Hc) by discriminate.
  rewrite Hsf, Hq. change (93 =? 93) with true.
  cbn [prefixb]. change (91 =? 91) with true. cbn [andb].
  unfold sid_of. destruct (hs_gzip cfg); reflexivity.
Qed.

Lemma rh_line3 f s d cfg rest : hs_cfg_ok cfg -> s_in s = line3 cfg ++ 13 :: rest ->
  read_handshake (S f) s d =
  if hs_master cfg then ROk (d, set_in s rest) else read_handshake f (set_in s rest) d.
Proof.
  intros H Hs. pose proof (line3_pr cfg H) as Hp. pose proof (line3_clean cfg) as Hc.
  pose proof (suffixb_one 62 _ _ (line3_ends cfg)) as Hsf.
  unfold line3 in *.
  rewrite (rh_step f s d _ _ rest Hs Hp Hc) by discriminate.
  rewrite Hsf. destruct (hs_master cfg); reflexivity.
Qed.

(* ---------- reading a whole greeting ---------- *)
Definition d0 : hsdata := {| hd_sid := []; hd_have_sid := false; hd_challenge := [] |}.
Definition d_of (cfg : hs_cfg) : hsdata := {| hd_sid := sid_of cfg; hd_have_sid := true; hd_challenge := [] |}.

Lemma read_hello_master f s cfg rest :
  hs_cfg_ok cfg -> hs_master cfg = true -> s_in s = hello cfg ++ rest ->
  read_handshake (S (S (S f))) s d0 = ROk (d_of cfg, set_in s rest).
Proof.
  intros H Hm Hs. unfold hello in Hs. repeat (rewrite <- app_assoc in Hs; cbn [app] in Hs).
  rewrite (rh_line1 _ s d0 cfg _ H Hs).
  rewrite (rh_line2 _ _ d0 cfg (line3 cfg ++ 13 :: rest) H)
    by reflexivity.
  rewrite set_in_set_in.
  rewrite (rh_line3 _ _ _ cfg rest H) by reflexivity.
  rewrite Hm, set_in_set_in. reflexivity.
Qed.

Lemma read_hello_slave f s cfg r :
  hs_cfg_ok cfg -> hs_master cfg = false -> s_master s = true -> s_in s = hello cfg ++ 70 :: r ->
  read_handshake (S (S (S (S f)))) s d0 = ROk (d_of cfg, set_in s (70 :: r)).
Proof.
  intros H Hm Hms Hs. unfold hello in Hs. repeat (rewrite <- app_assoc in Hs; cbn [app] in Hs).
  rewrite (rh_line1 _ s d0 cfg _ H Hs).
  rewrite (rh_line2 _ _ d0 cfg (line3 cfg ++ 13 :: 70 :: r) H)
    by reflexivity.
  rewrite set_in_set_in.
  rewrite (rh_line3 _ _ _ cfg (70 :: r) H) by reflexivity.
  rewrite Hm, set_in_set_in. cbn [read_handshake set_in s_in s_master]. rewrite Hms. reflexivity.
Qed.

Lemma d_of_good cfg : hd_have_sid (d_of cfg) && negb (beq_bytes (hd_sid (d_of cfg)) []) = true.
Proof. unfold d_of, sid_of. cbn [hd_have_sid hd_sid]. destruct (hs_gzip cfg); reflexivity. Qed.

Lemma hello_length cfg rest : exists f, length (hello cfg ++ rest) = S (S (S (S f))).
Proof. unfold hello, line1. cbn [app length]. eexists. reflexivity. Qed.

(* ---------- the two handshakes ---------- *)
Lemma handshake_master st cfgS r :
  s_master st = true -> s_motd st = [] -> s_in st = hello cfgS ++ 70 :: r ->
  hs_cfg_ok cfgS ->
  handshake st = ROk (set_in (wr st (hello (s_cfg st))) (70 :: r)).
Proof.
  intros Hm Hmo Hs H. unfold handshake. rewrite Hm, Hmo. cbn [fold_left].
  unfold do_send_handshake. rewrite send_hello.
  destruct (hello_length cfgS (70 :: r)) as [f Ef]. rewrite Hs, Ef. fold d0.
  destruct (hs_master cfgS) eqn:Hc.
  - (* the peer's greeting ends with the prompt as well: the master stops there *)
    rewrite (read_hello_master (S (S f)) (wr st (hello (s_cfg st))) cfgS (70 :: r) H Hc Hs).
    rewrite d_of_good. reflexivity.
  - rewrite (read_hello_slave (S f) (wr st (hello (s_cfg st))) cfgS r H Hc); [|exact Hm|exact Hs].
    rewrite d_of_good. reflexivity.
Qed.

Lemma handshake_slave st cfgM :
  s_master st = false -> s_in st = hello cfgM -> hs_cfg_ok cfgM -> hs_master cfgM = true ->
  handshake st = ROk (wr (set_in st []) (hello (s_cfg st))).
Proof.
  intros Hm Hs H Hc. unfold handshake. rewrite Hm.
  rewrite <- (app_nil_r (hello cfgM)) in Hs.
  destruct (hello_length cfgM []) as [f Ef]. rewrite Hs, Ef. fold d0.
  rewrite (read_hello_master (S (S f)) st cfgM [] H Hc Hs).
  rewrite d_of_good. unfold do_send_handshake. cbn [d_of hd_challenge set_in s_cfg].
  rewrite send_hello. reflexivity.
Qed.

(* ---------- the start state ---------- *)
Lemma init_state_facts cfg i :
  s_in (init_state cfg i) = i /\ s_master (init_state cfg i) = c_master cfg /\
  s_motd (init_state cfg i) = c_motd cfg /\ s_cfg (init_state cfg i) = c_hs cfg /\ s_out (init_state cfg i) = [].
Proof. unfold init_state. destruct (h_present (c_handler cfg)); repeat split; reflexivity. Qed.

(* the slave's own hs_master flag is irrelevant: with it set its greeting ends with the prompt too, and
   the master stops reading there, in front of the same byte *)
Theorem hs_compat_text_gen (m s : side_cfg) :
  c_master m = true -> c_master s = false -> c_motd m = [] ->
  hs_master (c_hs m) = true ->
  hs_cfg_ok (c_hs m) -> hs_cfg_ok (c_hs s) ->
  hs_compat m s.
Proof.
  intros Hm Hs Hmo Hhm Hom Hos.
  destruct (init_state_facts m (hello (c_hs s) ++ [70])) as [A1 [A2 [A3 [A4 A5]]]].
  destruct (init_state_facts s (hello (c_hs m))) as [B1 [B2 [_ [B4 B5]]]].
  exists (hello (c_hs m)), (hello (c_hs s)).
  eexists. eexists.
  split; [apply (handshake_master _ (c_hs s) []); [congruence|congruence|exact A1|exact Hos]|].
  split; [reflexivity|].
  split; [unfold wire; cbn [set_in wr s_out rev]; rewrite A5, A4; cbn [rev app concat]; apply app_nil_r|].
  split; [apply (handshake_slave _ (c_hs m)); [congruence|exact B1|exact Hom|exact Hhm]|].
  split; [reflexivity|].
  unfold wire. cbn [set_in wr s_out rev]. rewrite B5, B4. cbn [rev app concat]. apply app_nil_r.
Qed.

Theorem hs_compat_text (m s : side_cfg) :
  c_master m = true -> c_master s = false -> c_motd m = [] ->
  hs_master (c_hs m) = true -> hs_master (c_hs s) = false ->
  hs_cfg_ok (c_hs m) -> hs_cfg_ok (c_hs s) ->
  hs_compat m s.
Proof. intros Hm Hs Hmo Hhm _. apply hs_compat_text_gen; assumption. Qed.

(* the greetings themselves *)
Theorem hs_compat_text_wire (m s : side_cfg) :
  c_master m = true -> c_master s = false -> c_motd m = [] ->
  hs_master (c_hs m) = true -> hs_cfg_ok (c_hs m) -> hs_cfg_ok (c_hs s) ->
  exists sm ss,
    handshake (init_state m (hello (c_hs s) ++ [70])) = ROk sm /\ s_in sm = [70] /\ wire sm = hello (c_hs m) /\
    handshake (init_state s (hello (c_hs m))) = ROk ss /\ s_in ss = [] /\ wire ss = hello (c_hs s).
Proof.
  intros Hm Hs Hmo Hhm Hom Hos.
  destruct (init_state_facts m (hello (c_hs s) ++ [70])) as [A1 [A2 [A3 [A4 A5]]]].
  destruct (init_state_facts s (hello (c_hs m))) as [B1 [B2 [_ [B4 B5]]]].
  eexists. eexists.
  split; [apply (handshake_master _ (c_hs s) []); [congruence|congruence|exact A1|exact Hos]|].
  split; [reflexivity|].
  split; [unfold wire; cbn [set_in wr s_out rev]; rewrite A5, A4; cbn [rev app concat]; apply app_nil_r|].
  split; [apply (handshake_slave _ (c_hs m)); [congruence|exact B1|exact Hom|exact Hhm]|].
  split; [reflexivity|].
  unfold wire. cbn [set_in wr s_out rev]. rewrite B5, B4. cbn [rev app concat]. apply app_nil_r.
Qed.

(* the hypothesis on the master's forwarding list is needed: with an empty list its first line is
   ";FW:" without the space the reader insists on, and the slave refuses the greeting *)
Example hs_empty_fw_refused :
  let m := {| c_master := true; c_motd := [];
              c_hs := {| hs_fw := []; hs_name := [119]; hs_version := [49]; hs_target := [88];
                         hs_mycall := [76;65;49;66]; hs_locator := []; hs_master := true; hs_gzip := false;
                         hs_cb := None |};
              c_handler := c_handler (CutP.cx_side true [] [] []) |} in
  match handshake (init_state m []) with
  | RFail _ sm =>
      wire sm = [59;70;87;58;13; 91;119;45;49;45;66;50;70;72;77;36;93;13; 59;32;88;32;68;69;32;76;65;49;66;32;40;41;62;13] /\
      match handshake (init_state (CutP.cx_side false [] [] []) (wire sm)) with
      | RFail EOther _ => True
      | _ => False
      end
  | _ => False
  end.
Proof. vm_compute. split; [reflexivity|exact I]. Qed.

(* a computed instance *)
Example hs_compat_cx_text : hs_compat (CutP.cx_side true [] [] []) (CutP.cx_side false [] [] []).
Proof.
  apply hs_compat_text; try reflexivity;
    repeat split; try discriminate; repeat constructor; try discriminate; try (cbv; discriminate).
Qed.

Print Assumptions hs_compat_text_gen.
Print Assumptions hs_compat_text.
Print Assumptions hs_compat_text_wire.
