(* B2F/ConvergeFaultsP.v -- several faulty sessions with a STORAGE FAULT IN ANY OF THEM, followed by a
   complete one (lifts the restriction recorded at the end of B2F/ConvergeManyP.v).  See the end of the file. *)
From Coq Require Import List NArith ZArith Bool Lia ZifyN ZifyNat ZifyBool Sorting.Permutation.
From Verif Require Import Base.Bytes Base.BytesP gen.Tables Lzhuf.Dec Msg.Message B2F.Secure B2F.Side B2F.SideP
  B2F.TermP B2F.CodecP B2F.CutP B2F.PairDefs B2F.PairLines B2F.PairXfer B2F.PairHs B2F.PairP B2F.PairIter B2F.DeliverP
  B2F.ConvergeP B2F.ConvergeCutP B2F.ConvergeOnceP B2F.ConvergeManyP.
Import ListNotations.
Open Scope N_scope.

(* ================================================================================== *)
(* 1. The next mailbox with the storage fault of the next session                      *)
(* ================================================================================== *)
Definition set_fail (h : hstate) (f : list bytes) : hstate :=
  {| h_present := h_present h; h_prepare_err := h_prepare_err h; h_outbox := h_outbox h; h_gone := h_gone h;
     h_policy := h_policy h; h_fail := f |}.
Definition next_cfg_f (c : side_cfg) (o : outcome) (f : list bytes) : side_cfg :=
  {| c_master := c_master c; c_motd := c_motd c; c_hs := c_hs c; c_handler := set_fail (next_handler (c_handler c) o) f |}.

Lemma policy_of_next_f c o f m :
  policy_of (c_handler (next_cfg_f c o f)) m = if stored_in (x_events o) m then AReject else policy_of (c_handler c) m.
Proof. exact (policy_of_next (c_handler c) o m). Qed.
Lemma In_next_outbox_f c o f p :
  In p (h_outbox (c_handler (next_cfg_f c o f))) <-> In p (h_outbox (c_handler c)) /\ sent_in (x_events o) (o_mid p) = false.
Proof. exact (In_next_outbox (c_handler c) o p). Qed.
Lemma side_sound_next_f x ox f : side_sound x -> side_sound (next_cfg_f x ox f).
Proof. intros H. exact (side_sound_next x ox H). Qed.
Lemma init_state_next_f c o f i :
  init_state (next_cfg_f c o f) i = set_h (init_state c i) (set_fail (next_handler (c_handler c) o) f).
Proof.
  unfold init_state, next_cfg_f. cbn [c_handler c_master c_hs c_motd set_fail next_handler h_present].
  destruct (h_present (c_handler c)); reflexivity.
Qed.
Lemma hs_compat_next_f m s om os fm fs : hs_compat m s -> hs_compat (next_cfg_f m om fm) (next_cfg_f s os fs).
Proof.
  intros (M&S&sm&ss&Hm1&Hm2&Hm3&Hs1&Hs2&Hs3).
  exists M, S, (set_h sm (set_fail (next_handler (c_handler m) om) fm)), (set_h ss (set_fail (next_handler (c_handler s) os) fs)).
  rewrite !init_state_next_f, !handshake_set_h, Hm1, Hs1. repeat split; assumption.
Qed.

(* a sequence of cut sessions; fx, fy: the MIDs at which ProcessInbound fails in the NEXT session *)
Inductive history_f : side_cfg -> side_cfg -> list (outcome * outcome) -> side_cfg -> side_cfg -> Prop :=
| hf_nil x y : history_f x y [] x y
| hf_cut x y in_x in_y fx fy l x' y' :
    cut_session x y in_x in_y ->
    history_f (next_cfg_f x (exchange x in_x) fx) (next_cfg_f y (exchange y in_y) fy) l x' y' ->
    history_f x y ((exchange x in_x, exchange y in_y) :: l) x' y'.

(* ================================================================================== *)
(* 2. The induction of ConvergeManyP.many_gen, with the faults                          *)
(* ================================================================================== *)
Lemma many_gen_f x y l xn yn : history_f x y l xn yn ->
  c_master x = negb (c_master y) ->
  hs_compat (if c_master x then x else y) (if c_master x then y else x) ->
  side_sound x -> side_sound y -> side_ready xn yn -> side_ready yn xn ->
  forall in_x' in_y', closed xn yn in_x' in_y' ->
  forall mid, rest_spec x y (logs_x l ++ x_events (exchange xn in_x')) (logs_y l ++ x_events (exchange yn in_y')) mid.
Proof.
  induction 1 as [x y|x y in_x in_y fx fy l xn yn Hcut Hh IH]; intros Hrole Hhs Sx Sy Rx Ry ix iy Hc mid.
  - (* the complete session *)
    cbn [logs_x logs_y flat_map app].
    destruct (complete_exchange_delivers x y Hrole Hhs Rx Ry) as [_ Hall].
    destruct (Hall ix iy Hc) as (_&_&[HD HA]&_). split.
    + intros Hn. destruct (HA mid Hn) as [A1 A2]. split; [rewrite (filter_of_own _ _ _ A1)|rewrite (filter_of_proc _ _ _ A2)]; reflexivity.
    + intros p Hp <-. specialize (HD p Hp). split; intros Hpol; rewrite Hpol in HD.
      * destruct HD as [A1 A2]. rewrite (filter_of_own _ _ _ A1), (filter_of_proc _ _ _ A2). cbn. rewrite beq_bytes_refl. split; reflexivity.
      * destruct HD as (A1&A2&_). rewrite (filter_of_own _ _ _ A1), (filter_of_proc _ _ _ A2). cbn. rewrite beq_bytes_refl. split; reflexivity.
  - (* a cut session first *)
    set (ox := exchange x in_x) in *. set (oy := exchange y in_y) in *.
    set (x1 := next_cfg_f x ox fx) in *. set (y1 := next_cfg_f y oy fy) in *.
    assert (Hhs1 : hs_compat (if c_master x1 then x1 else y1) (if c_master x1 then y1 else x1)).
    { unfold x1, y1. cbn [next_cfg_f c_master]. destruct (c_master x); apply hs_compat_next_f, Hhs. }
    specialize (IH Hrole Hhs1 (side_sound_next_f x ox fx Sx) (side_sound_next_f y oy fy Sy) Rx Ry ix iy Hc mid).
    change (logs_x ((ox, oy) :: l)) with (x_events ox ++ logs_x l).
    change (logs_y ((ox, oy) :: l)) with (x_events oy ++ logs_y l). rewrite <- !app_assoc.
    set (Lx1 := logs_x l ++ x_events (exchange xn ix)) in *. set (Ly1 := logs_y l ++ x_events (exchange yn iy)) in *.
    destruct IH as [IHC IHP].
    destruct (roles_swap x y Hrole Hhs) as [Hrole' Hhs'].
    pose proof Sx as (_&_&_&Wx&Ndx).
    (* this session *)
    assert (F1 : (length (filter (sent_ev mid) (x_events ox)) <= 1)%nat) by (apply sent_at_most_once, Ndx).
    assert (F2 : (length (filter (stored_ev mid) (x_events oy)) <= 1)%nat).
    { apply stored_le_proc. apply (processed_at_most_once y x in_y in_x Hrole' Hhs' Sy Sx (cut_session_sym _ _ _ _ Hcut)). }
    assert (Gone : sent_in (x_events ox) mid = true -> ~ In mid (map o_mid (h_outbox (c_handler x1)))).
    { intros Es K. apply in_map_iff in K. destruct K as (q&Eq&Hq). apply In_next_outbox_f in Hq. destruct Hq as [_ Hq].
      rewrite Eq, Es in Hq. discriminate. }
    assert (Stay : forall p, In p (h_outbox (c_handler x)) -> o_mid p = mid -> sent_in (x_events ox) mid = false ->
              In p (h_outbox (c_handler x1))).
    { intros p Hp <- Es. apply In_next_outbox_f. split; assumption. }
    unfold rest_spec. rewrite !filter_app, !app_length. split.
    + intros Hn.
      assert (E1 : filter (sent_ev mid) (x_events ox) = []).
      { apply existsb_filter_nil. destruct (existsb (sent_ev mid) (x_events ox)) eqn:E; [|reflexivity]. exfalso.
        apply (sent_in_true (x_events ox) mid) in E. destruct E as [r Hr]. apply Hn. eapply sent_only_outbox; exact Hr. }
      assert (E2 : filter (stored_ev mid) (x_events oy) = []).
      { apply existsb_filter_nil. destruct (existsb (stored_ev mid) (x_events oy)) eqn:E; [|reflexivity]. exfalso.
        apply (stored_in_true (x_events oy) mid) in E. destruct E as [d Hd]. apply Hn.
        eapply (stored_from_outbox x y in_x in_y); eassumption. }
      destruct IHC as [C1 C2].
      { intros K. apply Hn. apply in_map_iff in K. destruct K as (q&Eq&Hq). apply In_next_outbox_f in Hq.
        rewrite <- Eq. apply in_map, Hq. }
      rewrite E1, E2, C1, C2. split; reflexivity.
    + intros p Hp Hmid. split; intros Hpol.
      * (* y's policy rejects *)
        assert (E2 : filter (stored_ev mid) (x_events oy) = []).
        { apply existsb_filter_nil. destruct (existsb (stored_ev mid) (x_events oy)) eqn:E; [|reflexivity]. exfalso.
          apply (stored_in_true (x_events oy) mid) in E. destruct E as [d Hd].
          pose proof (stored_only_accepted y x in_y in_x Hrole' Hhs' Sy Sx (cut_session_sym _ _ _ _ Hcut) _ _ _ Hd) as K.
          congruence. }
        assert (Pol1 : policy_of (c_handler y1) mid = AReject).
        { unfold y1. rewrite policy_of_next_f. destruct (stored_in (x_events oy) mid); [reflexivity|exact Hpol]. }
        rewrite E2. destruct (sent_in (x_events ox) mid) eqn:Es.
        -- destruct (IHC (Gone eq_refl)) as [C1 C2]. rewrite C1, C2. split; [reflexivity|].
           unfold sent_in in Es. apply existsb_filter_pos in Es. cbn [length]. lia.
        -- destruct (IHP p (Stay p Hp Hmid eq_refl) Hmid) as [IR _]. destruct (IR Pol1) as [R1 R2].
           unfold sent_in in Es. rewrite (existsb_filter_nil _ _ Es), R1, R2. split; reflexivity.
      * (* y's policy accepts *)
        subst mid. destruct (sent_in (x_events ox) (o_mid p)) eqn:Es.
        -- destruct (IHC (Gone eq_refl)) as [C1 C2]. rewrite C1, C2, app_nil_r.
           pose proof Es as Es'. apply sent_in_true in Es'. destruct Es' as [[|] Hr].
           { pose proof (rejected_by_policy x y in_x in_y Hrole Hhs (side_sound_syn _ Sx) (side_sound_syn _ Sy) Hcut _ Hr). congruence. }
           pose proof (sent_only_if_received x y in_x in_y Hrole Hhs (side_sound_syn _ Sx) (side_sound_syn _ Sy) Wx Ndx Hcut p Hp Hr) as Hd.
           split; [apply filter_one; [exact Hd|cbn; apply beq_bytes_refl|exact F2]|].
           unfold sent_in in Es. apply existsb_filter_pos in Es. cbn [length]. lia.
        -- unfold sent_in in Es. rewrite (existsb_filter_nil _ _ Es). cbn [length app].
           destruct (stored_in (x_events oy) (o_mid p)) eqn:Et.
           ++ pose proof Et as Et'. apply stored_in_true in Et'. destruct Et' as [d Hd].
              pose proof (stored_is_own x y in_x in_y Hrole Hhs (side_sound_syn _ Sx) (side_sound_syn _ Sy) Wx Ndx Hcut p d true Hp Hd). subst d.
              assert (Pol1 : policy_of (c_handler y1) (o_mid p) = AReject).
              { unfold y1. rewrite policy_of_next_f. fold oy. rewrite Et. reflexivity. }
              destruct (IHP p (Stay p Hp eq_refl eq_refl) eq_refl) as [IR _]. destruct (IR Pol1) as [R1 R2].
              rewrite R1, R2, app_nil_r. split; [|reflexivity].
              apply filter_one; [exact Hd|cbn; apply beq_bytes_refl|exact F2].
           ++ assert (Pol1 : policy_of (c_handler y1) (o_mid p) = AAccept).
              { unfold y1. rewrite policy_of_next_f. fold oy. rewrite Et. exact Hpol. }
              destruct (IHP p (Stay p Hp eq_refl eq_refl) eq_refl) as [_ IA]. destruct (IA Pol1) as [A1 A2].
              unfold stored_in in Et. rewrite (existsb_filter_nil _ _ Et), A1, A2. split; reflexivity.
Qed.

(* ================================================================================== *)
(* 3. The last, complete session: no storage fault for what is still to be delivered     *)
(* ================================================================================== *)
(* the weakest condition used: no MID still in x's outbox is in y's h_fail *)
Definition nofail (x y : side_cfg) : Prop :=
  forall p, In p (h_outbox (c_handler x)) -> ~ In (o_mid p) (h_fail (c_handler y)).

Lemma history_f_last x y l xn yn : history_f x y l xn yn -> l <> [] -> side_sound x -> side_sound y ->
  side_sound xn /\ side_sound yn /\ h_gone (c_handler xn) = [] /\ h_gone (c_handler yn) = [].
Proof.
  induction 1 as [x y|x y in_x in_y fx fy l xn yn Hcut Hh IH]; intros Hne Sx Sy; [congruence|].
  destruct l as [|oo l'].
  - inversion Hh; subst. split; [apply side_sound_next_f, Sx|]. split; [apply side_sound_next_f, Sy|]. split; reflexivity.
  - apply IH; [discriminate|apply side_sound_next_f, Sx|apply side_sound_next_f, Sy].
Qed.

Lemma ready_of_sound x y : side_sound x -> h_gone (c_handler x) = [] -> nofail x y -> side_ready x y.
Proof.
  intros (H1&H2&H3&H4&H5) Hg Hf. split; [exact H2|]. split; [|intros p _; rewrite Hg; intros []].
  split; [exact H1|]. split; [exact H3|]. split; [exact H4|]. split; [exact H5|].
  intros p Hp. apply mem_bytes_notin, Hf, Hp.
Qed.

Definition swap_f := ConvergeManyP.swap.
Lemma history_f_sym x y l xn yn : history_f x y l xn yn -> history_f y x (map swap l) yn xn.
Proof.
  induction 1 as [x y|x y in_x in_y fx fy l xn yn Hcut Hh IH]; [constructor|].
  cbn [map swap fst snd]. apply (hf_cut y x in_y in_x fy fx); [apply cut_session_sym, Hcut|exact IH].
Qed.

(* CONVERGENCE AFTER SEVERAL FAULTY SESSIONS, EACH POSSIBLY WITH A STORAGE FAULT.  The faulty sessions are
   cut anywhere in either direction and their handlers may fail at any MIDs (the h_fail of the first pair
   is arbitrary, those of the later pairs are the lists of history_f); the last, complete session has no
   fault for the MIDs that are still in the other side's outbox (nofail).  Same conclusion as
   ConvergeManyP.convergence_many_spec / convergence_many. *)
Theorem convergence_many_f_spec (x y : side_cfg) l xn yn (in_x' in_y' : bytes) :
  c_master x = negb (c_master y) ->
  hs_compat (if c_master x then x else y) (if c_master x then y else x) ->
  side_sound x -> side_sound y ->
  history_f x y l xn yn -> l <> [] -> nofail xn yn -> nofail yn xn -> closed xn yn in_x' in_y' ->
  forall mid, rest_spec x y (logs_x l ++ x_events (exchange xn in_x')) (logs_y l ++ x_events (exchange yn in_y')) mid.
Proof.
  intros Hrole Hhs Sx Sy Hh Hne Fx Fy Hc mid.
  destruct (history_f_last _ _ _ _ _ Hh Hne Sx Sy) as (Sxn&Syn&Gx&Gy).
  exact (many_gen_f x y l xn yn Hh Hrole Hhs Sx Sy (ready_of_sound _ _ Sxn Gx Fx) (ready_of_sound _ _ Syn Gy Fy)
           in_x' in_y' Hc mid).
Qed.

Theorem convergence_many_f (x y : side_cfg) l xn yn (in_x' in_y' : bytes) :
  c_master x = negb (c_master y) ->
  hs_compat (if c_master x then x else y) (if c_master x then y else x) ->
  side_sound x -> side_sound y ->
  history_f x y l xn yn -> l <> [] -> nofail xn yn -> nofail yn xn -> closed xn yn in_x' in_y' ->
  let Lx := logs_x l ++ x_events (exchange xn in_x') in let Ly := logs_y l ++ x_events (exchange yn in_y') in
  (forall p, In p (h_outbox (c_handler x)) -> policy_of (c_handler y) (o_mid p) = AAccept ->
     filter (stored_ev (o_mid p)) Ly = [EvProcess (o_mid p) (pm_data p) true] /\
     length (filter (sent_ev (o_mid p)) Lx) = 1%nat) /\
  (forall p, In p (h_outbox (c_handler y)) -> policy_of (c_handler x) (o_mid p) = AAccept ->
     filter (stored_ev (o_mid p)) Lx = [EvProcess (o_mid p) (pm_data p) true] /\
     length (filter (sent_ev (o_mid p)) Ly) = 1%nat).
Proof.
  intros Hrole Hhs Sx Sy Hh Hne Fx Fy Hc Lx Ly. split; intros p Hp Ha.
  - destruct (convergence_many_f_spec x y l xn yn in_x' in_y' Hrole Hhs Sx Sy Hh Hne Fx Fy Hc (o_mid p)) as [_ HP].
    destruct (HP p Hp eq_refl) as [_ HA]. exact (HA Ha).
  - destruct (roles_swap x y Hrole Hhs) as [Hrole' Hhs'].
    assert (Hne' : map swap l <> []) by (destruct l; [congruence|discriminate]).
    assert (Hc' : closed yn xn in_y' in_x') by (destruct Hc as [H1 H2]; split; assumption).
    destruct (convergence_many_f_spec y x (map swap l) yn xn in_y' in_x' Hrole' Hhs' Sy Sx (history_f_sym _ _ _ _ _ Hh) Hne' Fy Fx Hc' (o_mid p)) as [_ HP].
    destruct (HP p Hp eq_refl) as [_ HA]. destruct (logs_swap l) as [E1 E2]. rewrite E1, E2 in HA. exact (HA Ha).
Qed.

(* ================================================================================== *)
(* 4. Instance: two faulty sessions, the second with a storage fault, then a complete one *)
(* ================================================================================== *)
(* ConvergeP.cv_a2 (slave; A1, A2) and cv_b0 [] (master).  Session 1: the link fails in the middle of the
   transfer of A2 (180 of 213 bytes): A1 stored, nothing reported.  Session 2, not cut, but b's store fails
   for A2 (h_fail = [A2]): b rejects A1 (a reports it), accepts A2, the store fails (EvProcess A2 _ false),
   both sides end with an error.  Session 3, complete, no fault: A2 delivered and reported. *)
Definition f3_a1 := next_cfg_f cv_a2 (exchange cv_a2 (cp_in_a cv_a2 (cv_b0 []) 180 1000)) [].
Definition f3_b1 := next_cfg_f (cv_b0 []) (exchange (cv_b0 []) (cp_in_b cv_a2 (cv_b0 []) 180 1000)) [[65;50]].
Definition f3_a2 := next_cfg_f f3_a1 (exchange f3_a1 (cp_in_a f3_a1 f3_b1 1000 1000)) [].
Definition f3_b2 := next_cfg_f f3_b1 (exchange f3_b1 (cp_in_b f3_a1 f3_b1 1000 1000)) [].
Definition f3_ia := cv_in f3_a2 f3_b2.
Definition f3_ib := x_wire (exchange f3_a2 f3_ia).
Definition f3_l : list (outcome * outcome) :=
  [(exchange cv_a2 (cp_in_a cv_a2 (cv_b0 []) 180 1000), exchange (cv_b0 []) (cp_in_b cv_a2 (cv_b0 []) 180 1000));
   (exchange f3_a1 (cp_in_a f3_a1 f3_b1 1000 1000), exchange f3_b1 (cp_in_b f3_a1 f3_b1 1000 1000))].

Example faults_three_sessions_logs :
  (map (fun oo => (x_res (fst oo), x_res (snd oo))) f3_l,
   map strip (logs_x f3_l ++ x_events (exchange f3_a2 f3_ia)),
   map strip (logs_y f3_l ++ x_events (exchange f3_b2 f3_ib))) =
  ([(XConnLost, XConnLost); (XOther, XOther)],
   [EvPrepare; EvGetOutbound; EvBlockEnd;
    EvPrepare; EvGetOutbound; EvSetSent [65;49] true; EvBlockEnd;
    EvPrepare; EvGetOutbound; EvSetSent [65;50] false; EvBlockEnd; EvGetOutbound],
   [EvPrepare; EvAnswer [65;49] AAccept; EvAnswer [65;50] AAccept; EvProcess [65;49] [] true;
    EvPrepare; EvAnswer [65;49] AReject; EvAnswer [65;50] AAccept; EvProcess [65;50] [] false;
    EvPrepare; EvAnswer [65;50] AAccept; EvProcess [65;50] [] true; EvGetOutbound]).
Proof. vm_compute. reflexivity. Qed.

Example faults_three_sessions_history :
  history_f cv_a2 (cv_b0 []) f3_l f3_a2 f3_b2 /\ f3_l <> [] /\ nofail f3_a2 f3_b2 /\ nofail f3_b2 f3_a2 /\
  closed f3_a2 f3_b2 f3_ia f3_ib.
Proof.
  split; [|split; [discriminate|split; [intros p _ []|split; [intros p _ []|split; vm_compute; reflexivity]]]].
  unfold f3_l. apply (hf_cut cv_a2 (cv_b0 []) _ _ [] [[65;50]]); [apply cp_session; vm_compute; reflexivity|].
  apply (hf_cut f3_a1 f3_b1 _ _ [] []); [apply cp_session; vm_compute; reflexivity|]. apply hf_nil.
Qed.

(* the conclusion, by the theorem *)
Example faults_three_sessions_delivered :
  forall p, In p (h_outbox (c_handler cv_a2)) ->
    filter (stored_ev (o_mid p)) (logs_y f3_l ++ x_events (exchange f3_b2 f3_ib)) = [EvProcess (o_mid p) (pm_data p) true] /\
    length (filter (sent_ev (o_mid p)) (logs_x f3_l ++ x_events (exchange f3_a2 f3_ia))) = 1%nat.
Proof.
  intros p Hp. destruct (cv2_hypotheses []) as (H1&H2&H3&H4).
  destruct faults_three_sessions_history as (Hh&Hne&F1&F2&Hc).
  assert (Hhs : hs_compat (if c_master cv_a2 then cv_a2 else cv_b0 []) (if c_master cv_a2 then cv_b0 [] else cv_a2))
    by (apply hs_check_sound; exact H2).
  apply (proj1 (convergence_many_f cv_a2 (cv_b0 []) f3_l f3_a2 f3_b2 f3_ia f3_ib H1 Hhs
                  (sound_check_sound _ H3) (sound_check_sound _ H4) Hh Hne F1 F2 Hc) p Hp).
  reflexivity.
Qed.

(* ================================================================================== *)
(* 5. (D) Entries the ORIGINAL policy defers stay pending                              *)
(* ================================================================================== *)
Lemma deferred_gen x y l xn yn : history_f x y l xn yn ->
  c_master x = negb (c_master y) ->
  hs_compat (if c_master x then x else y) (if c_master x then y else x) ->
  side_sound x -> side_sound y ->
  forall p, In p (h_outbox (c_handler x)) -> policy_of (c_handler y) (o_mid p) = ADefer ->
    filter (sent_ev (o_mid p)) (logs_x l) = [] /\ filter (proc (o_mid p)) (logs_y l) = [] /\
    In p (h_outbox (c_handler xn)) /\ policy_of (c_handler yn) (o_mid p) = ADefer.
Proof.
  induction 1 as [x y|x y in_x in_y fx fy l xn yn Hcut Hh IH]; intros Hrole Hhs Sx Sy p Hp Hd.
  { cbn. repeat split; assumption. }
  set (ox := exchange x in_x) in *. set (oy := exchange y in_y) in *.
  set (x1 := next_cfg_f x ox fx) in *. set (y1 := next_cfg_f y oy fy) in *.
  assert (Hhs1 : hs_compat (if c_master x1 then x1 else y1) (if c_master x1 then y1 else x1)).
  { unfold x1, y1. cbn [next_cfg_f c_master]. destruct (c_master x); apply hs_compat_next_f, Hhs. }
  destruct (roles_swap x y Hrole Hhs) as [Hrole' Hhs'].
  pose proof Sx as (_&_&_&Wx&Ndx).
  assert (E2 : filter (proc (o_mid p)) (x_events oy) = []).
  { apply (not_stored_unless_accepted y x in_y in_x Hrole' Hhs' Sy Sx (cut_session_sym _ _ _ _ Hcut)). congruence. }
  assert (Es : sent_in (x_events ox) (o_mid p) = false).
  { destruct (sent_in (x_events ox) (o_mid p)) eqn:Es; [exfalso|reflexivity].
    apply sent_in_true in Es. destruct Es as [[|] Hr].
    - pose proof (rejected_by_policy x y in_x in_y Hrole Hhs (side_sound_syn _ Sx) (side_sound_syn _ Sy) Hcut _ Hr). congruence.
    - pose proof (sent_only_if_received x y in_x in_y Hrole Hhs (side_sound_syn _ Sx) (side_sound_syn _ Sy) Wx Ndx Hcut p Hp Hr) as K.
      assert (K2 : In (EvProcess (o_mid p) (pm_data p) true) (filter (proc (o_mid p)) (x_events oy)))
        by (apply filter_In; split; [exact K|cbn; apply beq_bytes_refl]).
      fold oy in K2. rewrite E2 in K2. exact K2. }
  assert (Et : stored_in (x_events oy) (o_mid p) = false).
  { destruct (stored_in (x_events oy) (o_mid p)) eqn:Et; [exfalso|reflexivity].
    apply stored_in_true in Et. destruct Et as [d K].
    assert (K2 : In (EvProcess (o_mid p) d true) (filter (proc (o_mid p)) (x_events oy)))
      by (apply filter_In; split; [exact K|cbn; apply beq_bytes_refl]).
    rewrite E2 in K2. exact K2. }
  assert (Hp1 : In p (h_outbox (c_handler x1))) by (apply In_next_outbox_f; split; assumption).
  assert (Hd1 : policy_of (c_handler y1) (o_mid p) = ADefer).
  { unfold y1. rewrite policy_of_next_f. fold oy. rewrite Et. exact Hd. }
  destruct (IH Hrole Hhs1 (side_sound_next_f x ox fx Sx) (side_sound_next_f y oy fy Sy) p Hp1 Hd1) as (I1&I2&I3&I4).
  change (logs_x ((ox, oy) :: l)) with (x_events ox ++ logs_x l).
  change (logs_y ((ox, oy) :: l)) with (x_events oy ++ logs_y l).
  rewrite !filter_app, I1, I2, E2. unfold sent_in in Es. rewrite (existsb_filter_nil _ _ Es).
  repeat split; assumption.
Qed.

(* an entry the peer's original policy defers is never reported sent and never handed to the peer's handler,
   in no session of the history nor in the complete last one, and is still in the owner's outbox at the end *)
Theorem deferred_stays_pending (x y : side_cfg) l xn yn (in_x' in_y' : bytes) :
  c_master x = negb (c_master y) ->
  hs_compat (if c_master x then x else y) (if c_master x then y else x) ->
  side_sound x -> side_sound y ->
  history_f x y l xn yn -> l <> [] -> nofail xn yn -> nofail yn xn -> closed xn yn in_x' in_y' ->
  forall p, In p (h_outbox (c_handler x)) -> policy_of (c_handler y) (o_mid p) = ADefer ->
    filter (sent_ev (o_mid p)) (logs_x l ++ x_events (exchange xn in_x')) = [] /\
    filter (proc (o_mid p)) (logs_y l ++ x_events (exchange yn in_y')) = [] /\
    In p (h_outbox (c_handler xn)) /\
    In p (h_outbox (c_handler (next_cfg xn (exchange xn in_x')))).
Proof.
  intros Hrole Hhs Sx Sy Hh Hne Fx Fy Hc p Hp Hd.
  destruct (deferred_gen x y l xn yn Hh Hrole Hhs Sx Sy p Hp Hd) as (I1&I2&I3&I4).
  destruct (history_f_last _ _ _ _ _ Hh Hne Sx Sy) as (Sxn&Syn&Gx&Gy).
  assert (Hrn : c_master xn = negb (c_master yn) /\
                hs_compat (if c_master xn then xn else yn) (if c_master xn then yn else xn)).
  { clear -Hh Hrole Hhs. induction Hh as [x y|x y in_x in_y fx fy l xn yn Hcut Hh IH]; [split; assumption|].
    apply IH; [exact Hrole|]. cbn [next_cfg_f c_master]. destruct (c_master x); apply hs_compat_next_f, Hhs. }
  destruct Hrn as [Hrn Hhn].
  destruct (complete_exchange_delivers xn yn Hrn Hhn (ready_of_sound _ _ Sxn Gx Fx) (ready_of_sound _ _ Syn Gy Fy)) as [_ Hall].
  destruct (Hall in_x' in_y' Hc) as (_&_&[HD _]&_). specialize (HD p I3). rewrite I4 in HD. destruct HD as [A1 A2].
  rewrite !filter_app, I1, I2, A2, (filter_of_own _ _ _ A1). cbn [filter sent_ev app].
  split; [reflexivity|]. split; [reflexivity|]. split; [exact I3|].
  apply In_next_outbox. split; [exact I3|]. rewrite sent_in_own, A1. reflexivity.
Qed.

Print Assumptions many_gen_f.
Print Assumptions convergence_many_f_spec.
Print Assumptions convergence_many_f.
Print Assumptions faults_three_sessions_logs.
Print Assumptions faults_three_sessions_history.
Print Assumptions faults_three_sessions_delivered.
Print Assumptions deferred_gen.
Print Assumptions deferred_stays_pending.

(* SUMMARY
   next_cfg_f c o f = ConvergeP.next_cfg c o with h_fail := f; history_f: a sequence of cut sessions, each
   on the mailboxes the previous one left, with ANY storage-fault lists (fx, fy) installed for the next
   session (the h_fail of the first pair is arbitrary as before).  nofail xn yn: no MID still in xn's outbox
   is in yn's h_fail -- all that is asked of the last, complete session (with h_gone = [] and soundness,
   which the history gives, this is DeliverP.side_ready).
   (F) convergence_many_f_spec / convergence_many_f: the conclusions of ConvergeManyP.convergence_many_spec /
       convergence_many for history_f.  The h_fail := [] of next_cfg was used only for side_ready of the last
       pair; the induction (many_gen_f) is ConvergeManyP.many_gen with next_cfg_f.
   (D) deferred_gen / deferred_stays_pending: an entry whose MID the peer's ORIGINAL policy defers is never
       reported sent (no EvSetSent, either flag) and never handed to the peer's handler (no EvProcess at all)
       in any session of the history nor in the complete one, is in the outbox of the last pair and still
       there after the complete session.
   Example: cut in the middle of a transfer; then an uncut session with a storage fault; then a complete
   one (the examples faults_three_sessions_logs, _history, _delivered). *)
