(* B2F/ConvergeOnceP.v -- EXACTLY ONCE over a cut session and the complete session that follows it
   (B2F/ConvergeP.v, B2F/ConvergeCutP.v).  No axioms; Print Assumptions at the end: closed.

   (S1) reported_at_most_once (one-sided, sections 1-4): for every side whose outbox has pairwise
        distinct MIDs and EVERY input, the log contains at most one event among EvSetSent mid false,
        EvSetSent mid true, EvSetDeferred mid (length (filter (own mid) ..) <= 1); sent_at_most_once.
        NoDup is needed: reported_twice_without_nodup.  Method: `ostep` (the log grows by a list whose
        reported MIDs are pairwise distinct, were not in h_gone and now are), invariant U.
   (S2) processed_at_most_once (joint, section 6): in a cut_session of two library sides (both
        side_sound) the handler of a side is given each MID at most once, successfully or not
        (length (filter (proc mid) ..) <= 1).  Method: joint_turn2 = ConvergeCutP.joint_turn with the
        logs as lists (the sender's turn hands nothing to its handler: pn; the receiver of a genuine
        block is given a duplicate-free sub-list of the accepted MIDs of the block: receive_any_l;
        if the sender goes on, these MIDs are in its h_gone), joint_once, the handshake as in cut_events.
   convergence_sent_exactly_once (section 5), convergence_exactly_once (section 7): for every entry the
        peer's policy accepts, the successful EvProcess for its MID in the peer's two logs together
        are exactly [EvProcess mid (pm_data p) true] and the owner's two logs together contain
        exactly one EvSetSent for the MID.
   NOT DONE: (S3) that the peer stores nothing under a MID its policy rejects or defers in the cut
   session (needs the answer "accept" in ConvergeCutP.Pgen / Pk; not cheap without changing that file). *)
From Coq Require Import List NArith ZArith Bool Lia ZifyN ZifyNat ZifyBool Sorting.Permutation.
From Verif Require Import Base.Bytes Base.BytesP gen.Tables Lzhuf.Dec Msg.Message B2F.Secure B2F.Side B2F.SideP
  B2F.TermP B2F.CodecP B2F.CutP B2F.PairDefs B2F.PairLines B2F.PairXfer B2F.PairHs B2F.PairP B2F.PairIter B2F.DeliverP
  B2F.ConvergeP B2F.ConvergeCutP.
Import ListNotations.
Open Scope N_scope.

(* ================================================================================== *)
(* 1. The MIDs a log reports (sent, rejected or deferred), as a list                   *)
(* ================================================================================== *)
Definition own_mid (e : event) : list bytes :=
  match e with EvSetSent m _ => [m] | EvSetDeferred m => [m] | _ => [] end.
Definition own_mids (E : list event) : list bytes := flat_map own_mid E.

Lemma own_mids_app a b : own_mids (a ++ b) = own_mids a ++ own_mids b.
Proof. apply flat_map_app. Qed.

Lemma own_notin m E : ~ In m (own_mids E) -> filter (own m) E = [].
Proof.
  induction E as [|e E IH]; intros H; [reflexivity|]. cbn [filter]. unfold own_mids in H. cbn [flat_map] in H.
  fold (own_mids E) in H.
  assert (H2 : ~ In m (own_mids E)) by (intros K; apply H, in_or_app; right; exact K).
  destruct (own m e) eqn:Eo; [|apply IH, H2]. exfalso. apply H, in_or_app. left.
  destruct e as [| |m' r|m'| | |]; try discriminate; cbn [own] in Eo; apply beq_bytes_true in Eo; subst; left; reflexivity.
Qed.

Lemma own_once m E : NoDup (own_mids E) -> (length (filter (own m) E) <= 1)%nat.
Proof.
  induction E as [|e E IH]; intros H; [cbn; lia|]. unfold own_mids in H. cbn [flat_map] in H. fold (own_mids E) in H.
  cbn [filter]. destruct (own m e) eqn:Eo.
  - assert (Em : own_mid e = [m]).
    { destruct e as [| |m' r|m'| | |]; try discriminate; cbn [own] in Eo; apply beq_bytes_true in Eo; subst; reflexivity. }
    rewrite Em in H. cbn [app] in H. inversion H as [|? ? Hn Hd]; subst. rewrite (own_notin _ _ Hn). cbn. lia.
  - apply IH. destruct (own_mid e) as [|x [|y l]] eqn:Em; cbn [app] in H; [exact H|inversion H; assumption|].
    destruct e; discriminate.
Qed.

(* ================================================================================== *)
(* 2. Steps that report each MID at most once and only if it was not yet gone           *)
(* ================================================================================== *)
Definition ostep (s s' : sess) : Prop :=
  hob s' = hob s /\ (forall m, In m (gone s) -> In m (gone s')) /\
  exists E, s_ev s' = E ++ s_ev s /\ NoDup (own_mids E) /\
            forall m, In m (own_mids E) -> ~ In m (gone s) /\ In m (gone s').

Lemma NoDup_app_intro {A} (a b : list A) : NoDup a -> NoDup b -> (forall x, In x a -> ~ In x b) -> NoDup (a ++ b).
Proof.
  induction a as [|x a IH]; intros Ha Hb Hd; [exact Hb|]. inversion Ha as [|? ? Hn Ha']; subst. cbn [app]. constructor.
  - intros K. apply in_app_or in K. destruct K as [K|K]; [exact (Hn K)|]. apply (Hd x); [left; reflexivity|exact K].
  - apply IH; [exact Ha'|exact Hb|]. intros y Hy. apply Hd. right. exact Hy.
Qed.

Lemma ostep_refl s : ostep s s.
Proof. split; [reflexivity|]. split; [auto|]. exists []. split; [reflexivity|]. split; [constructor|intros m []]. Qed.

Lemma ostep_trans a b c : ostep a b -> ostep b c -> ostep a c.
Proof.
  intros (H1&G1&E1&V1&N1&M1) (H2&G2&E2&V2&N2&M2). split; [congruence|]. split; [auto|].
  exists (E2 ++ E1). split; [rewrite V2, V1, app_assoc; reflexivity|]. rewrite own_mids_app. split.
  - apply NoDup_app_intro; [exact N2|exact N1|]. intros m K2 K1. apply (proj1 (M2 m K2)). apply (proj2 (M1 m K1)).
  - intros m K. apply in_app_or in K. destruct K as [K|K].
    + split; [intros G; apply (proj1 (M2 m K)), G1, G|apply (proj2 (M2 m K))].
    + split; [apply (proj1 (M1 m K))|apply G2, (proj2 (M1 m K))].
Qed.

(* steps that report nothing and leave the handler alone *)
Definition nstep (s s' : sess) : Prop :=
  s_h s' = s_h s /\ exists E, s_ev s' = E ++ s_ev s /\ own_mids E = [].

Lemma nstep_refl s : nstep s s.
Proof. split; [reflexivity|]. exists []. split; reflexivity. Qed.
Lemma nstep_trans a b c : nstep a b -> nstep b c -> nstep a c.
Proof.
  intros (H1&E1&V1&N1) (H2&E2&V2&N2). split; [congruence|]. exists (E2 ++ E1).
  split; [rewrite V2, V1, app_assoc; reflexivity|]. rewrite own_mids_app, N1, N2. reflexivity.
Qed.
Lemma nstep_same s s' : s_h s' = s_h s -> s_ev s' = s_ev s -> nstep s s'.
Proof. intros H1 H2. split; [exact H1|]. exists []. split; [exact H2|reflexivity]. Qed.
Lemma nstep_eqo a b : eqo a b -> nstep a b.
Proof. intros H. apply nstep_same; [symmetry; apply eqo_h, H|symmetry; apply eqo_ev, H]. Qed.
Lemma nstep_ev s e : own_mid e = [] -> nstep s (ev s e).
Proof. intros H. split; [reflexivity|]. exists [e]. split; [reflexivity|]. unfold own_mids. cbn [flat_map]. rewrite H. reflexivity. Qed.
Lemma nstep_ostep s s' : nstep s s' -> ostep s s'.
Proof.
  intros (H&E&V&N). split; [unfold hob; rewrite H; reflexivity|]. split; [unfold gone; rewrite H; auto|].
  exists E. split; [exact V|]. rewrite N. split; [constructor|intros m []].
Qed.

Definition res_n {A} (s : sess) (r : res sess (A * sess)) : Prop :=
  match r with ROk (_, s') => nstep s s' | RFail _ s' => nstep s s' | RPanic => True end.
Lemma res_n_trans {A} s s1 (r : res sess (A * sess)) : nstep s s1 -> res_n s1 r -> res_n s r.
Proof. intros G. destruct r as [[a s']|e s'|]; cbn; auto; intros; eapply nstep_trans; eassumption. Qed.

Lemma answer_props_n props : forall s seen acc, nstep s (fst (answer_props s props seen acc)).
Proof.
  induction props as [|p r IH]; intros s seen acc; cbn [answer_props]; [apply nstep_refl|].
  destruct (mem_bytes (i_mid p) seen || negb ((i_code p =? Wl2kProposal) || (i_code p =? GzipProposal))
            || negb (h_present (s_h s))); [apply IH|].
  eapply nstep_trans; [|apply IH]. apply nstep_ev. reflexivity.
Qed.

Lemma il_line_n s1 props lines line :
  match il_line s1 props lines line with
  | IlDone (ROk (_, s')) => nstep s1 s' | IlDone (RFail _ s') => nstep s1 s' | _ => True end.
Proof.
  unfold il_line. destruct (prefixb str_PM line); [exact I|].
  destruct line as [|c0 rest0]; [exact I|].
  destruct (c0 =? 59); [exact I|].
  destruct ((length (c0 :: rest0) <? 2)%nat || negb (c0 =? 70)); [apply nstep_refl|].
  destruct rest0 as [|c1 r]; [exact I|].
  destruct (in_list c1 [65; 66; 67; 68]).
  { destruct (parse_proposal s1 (c0 :: c1 :: r)) as [p|e s'|] eqn:Ep; try exact I.
    apply parse_proposal_fail in Ep. destruct Ep as [_ ->]. apply nstep_refl. }
  destruct (c1 =? 70); [apply nstep_same; reflexivity|]. destruct (c1 =? 81); [apply nstep_refl|].
  destruct (c1 =? 62); [|apply nstep_refl].
  destruct (slice_from 2 (c0 :: c1 :: r)) as [ck|]; [|exact I]. cbv zeta.
  destruct (negb _); [apply nstep_refl|].
  destruct props as [|p0 pr]; [apply nstep_same; reflexivity|].
  pose proof (answer_props_n (rev' (p0 :: pr)) (set_nomsgs s1 false) [] []) as Ha.
  destruct (answer_props (set_nomsgs s1 false) (rev' (p0 :: pr)) [] []) as [s2 answered]. cbn [fst] in Ha.
  eapply nstep_trans; [apply (nstep_same s1 (set_nomsgs s1 false)); reflexivity|].
  eapply nstep_trans; [exact Ha|]. apply nstep_same; reflexivity.
Qed.

Lemma inbound_loop_n : forall f s props lines, res_n s (inbound_loop f s props lines).
Proof.
  induction f as [|f IH]; intros s props lines; [apply nstep_refl|]. rewrite inbound_loop_eq.
  pose proof (next_line_eqo true s) as Hn.
  destruct (next_line true s) as [[line s1]|e s1|]; cbn [res_eqo] in Hn; [|apply nstep_eqo, Hn|exact I].
  pose proof (il_line_n s1 props lines line) as Hl.
  destruct (il_line s1 props lines line) as [p l|[[[q pp] s2]|e s2|]].
  - eapply res_n_trans; [apply nstep_eqo, Hn|apply IH].
  - eapply nstep_trans; [apply nstep_eqo, Hn|exact Hl].
  - eapply nstep_trans; [apply nstep_eqo, Hn|exact Hl].
  - exact I.
Qed.

Lemma receive_accepted_n : forall props s,
  match receive_accepted s props with RcOk s' => nstep s s' | RcErr _ s' => nstep s s' | _ => True end.
Proof.
  induction props as [|p r IH]; intros s; cbn [receive_accepted]; [apply nstep_refl|].
  destruct (i_answer p); try apply IH.
  pose proof (read_compressed_eqo s p) as Hq.
  destruct (read_compressed s p) as [[cdata s1]|e s1|]; cbn [res_eqo] in Hq; [|apply nstep_eqo, Hq|exact I].
  destruct (proposal_message cdata) as [mid data|e|]; [|apply nstep_eqo, Hq|exact I].
  assert (Hev : forall ok, nstep s (ev s1 (EvProcess mid data ok))).
  { intros ok. eapply nstep_trans; [apply nstep_eqo, Hq|apply nstep_ev; reflexivity]. }
  destruct (mem_bytes mid (h_fail (s_h s1))); [apply Hev|].
  specialize (IH (add_recv (ev s1 (EvProcess mid data (negb false))) (i_mid p))).
  assert (S2 : nstep s (add_recv (ev s1 (EvProcess mid data (negb false))) (i_mid p))).
  { eapply nstep_trans; [apply (Hev (negb false))|apply nstep_same; reflexivity]. }
  destruct (receive_accepted _ r) as [s2|e s2| |]; try exact I; eapply nstep_trans; eassumption.
Qed.

(* ---------- the invariant ---------- *)
Definition U (s : sess) : Prop :=
  NoDup (own_mids (s_ev s)) /\ forall m, In m (own_mids (s_ev s)) -> In m (gone s).

Lemma U_step s s' : U s -> ostep s s' -> U s'.
Proof.
  intros [N0 M0] (_&G&E&V&N&M). unfold U. rewrite V, own_mids_app. split.
  - apply NoDup_app_intro; [exact N|exact N0|]. intros m K1 K0. apply (proj1 (M m K1)), M0, K0.
  - intros m K. apply in_app_or in K. destruct K as [K|K]; [apply (proj2 (M m K))|apply G, M0, K].
Qed.

(* ================================================================================== *)
(* 3. The sender's turn                                                                *)
(* ================================================================================== *)
Lemma ostep_mark s m e : own_mid e = [m] -> ~ In m (gone s) -> ostep s (ev (mark_gone s m) e).
Proof.
  intros He Hn. split; [reflexivity|]. split; [intros x Hx; right; exact Hx|].
  exists [e]. split; [reflexivity|]. unfold own_mids. cbn [flat_map]. rewrite He, app_nil_r.
  split; [constructor; [intros []|constructor]|]. intros x [<-|[]]. split; [exact Hn|left; reflexivity].
Qed.

Lemma perm_mid {A} (F PS : list A) x : Permutation (F ++ x :: PS) ((x :: F) ++ PS).
Proof. apply Permutation_sym. apply Permutation_middle. Qed.

Lemma send_accepted_once props : forall s ans sent,
  NoDup (map fst sent ++ map o_mid props) ->
  (forall m, In m (map fst sent ++ map o_mid props) -> ~ In m (gone s)) ->
  match send_accepted s props ans sent with
  | ROk (s', sent') => ostep s s' /\ NoDup (map fst sent') /\ (forall m, In m (map fst sent') -> ~ In m (gone s'))
  | RFail _ s' => ostep s s'
  | RPanic => True
  end.
Proof.
  induction props as [|p ps IH]; intros s ans sent Hnd Hg; cbn [send_accepted].
  { cbn [map] in Hnd, Hg. rewrite app_nil_r in Hnd, Hg. split; [apply ostep_refl|]. split; assumption. }
  cbn [map] in Hnd, Hg.
  assert (Hnd' : NoDup (map fst sent ++ map o_mid ps)) by (apply NoDup_remove_1 in Hnd; exact Hnd).
  assert (Hmid : ~ In (o_mid p) (map fst sent ++ map o_mid ps)) by (apply NoDup_remove_2 in Hnd; exact Hnd).
  assert (Hg' : forall m, In m (map fst sent ++ map o_mid ps) -> ~ In m (gone s)).
  { intros m K. apply Hg. apply in_app_or in K. apply in_or_app. destruct K as [K|K]; [left; exact K|right; right; exact K]. }
  assert (Hnd2 : forall b, NoDup (map fst ((o_mid p, b) :: sent) ++ map o_mid ps)).
  { intros b. cbn [map fst]. eapply Permutation_NoDup; [apply perm_mid|exact Hnd]. }
  assert (Hg2 : forall b m, In m (map fst ((o_mid p, b) :: sent) ++ map o_mid ps) -> ~ In m (gone s)).
  { intros b m K. apply Hg. cbn [map fst] in K. eapply Permutation_in; [apply Permutation_sym, perm_mid|exact K]. }
  destruct ans as [|a r]; cbn zeta iota beta; [apply IH; assumption|].
  destruct a as [|[| |] off]; [apply IH; assumption| | |].
  - pose proof (write_compressed_ev s p off) as Hw. pose proof (write_compressed_h s p off) as Hh.
    destruct (write_compressed s p off) as [s1|e s1|]; [|apply nstep_ostep, nstep_same; assumption|exact I].
    assert (N1 : ostep s s1) by (apply nstep_ostep, nstep_same; assumption).
    specialize (IH s1 r ((o_mid p, false) :: sent) (Hnd2 false)).
    assert (G1 : forall m, In m (map fst ((o_mid p, false) :: sent) ++ map o_mid ps) -> ~ In m (gone s1)).
    { intros m K. unfold gone. rewrite Hh. apply (Hg2 false m K). }
    specialize (IH G1).
    destruct (send_accepted s1 ps r _) as [[s' l]|e s'|]; try exact I.
    + destruct IH as (I1&I2&I3). split; [eapply ostep_trans; eassumption|split; assumption].
    + eapply ostep_trans; eassumption.
  - apply IH; [apply Hnd2|apply Hg2].
  - assert (N1 : ostep s (ev (mark_gone s (o_mid p)) (EvSetDeferred (o_mid p)))).
    { apply ostep_mark; [reflexivity|]. apply Hg, in_or_app. right. left. reflexivity. }
    specialize (IH (ev (mark_gone s (o_mid p)) (EvSetDeferred (o_mid p))) r sent Hnd').
    assert (G1 : forall m, In m (map fst sent ++ map o_mid ps) ->
              ~ In m (gone (ev (mark_gone s (o_mid p)) (EvSetDeferred (o_mid p))))).
    { intros m K [E|G]; [subst m; exact (Hmid K)|exact (Hg' m K G)]. }
    specialize (IH G1).
    destruct (send_accepted _ ps r sent) as [[s' l]|e s'|]; try exact I.
    + destruct IH as (I1&I2&I3). split; [eapply ostep_trans; eassumption|split; assumption].
    + eapply ostep_trans; eassumption.
Qed.

Lemma in_fst {A B} (l : list (A * B)) a b : In (a, b) l -> In a (map fst l).
Proof. intros H. apply in_map_iff. exists (a, b). split; [reflexivity|exact H]. Qed.

Lemma mark_rej_once : forall l s, NoDup (map fst l) -> (forall m, In (m, true) l -> ~ In m (gone s)) ->
  ostep s (mark_rej l s) /\ (forall m, In m (gone (mark_rej l s)) -> In m (gone s) \/ In (m, true) l).
Proof.
  unfold mark_rej. induction l as [|[m b] l IH]; intros s Hnd Hg; cbn [fold_left]; [split; [apply ostep_refl|auto]|].
  cbn [map fst] in Hnd. inversion Hnd as [|? ? Hn Hnd']; subst. cbn [snd fst]. destruct b.
  - assert (N1 : ostep s (ev (mark_gone s m) (EvSetSent m true))).
    { apply ostep_mark; [reflexivity|]. apply Hg. left. reflexivity. }
    destruct (IH (ev (mark_gone s m) (EvSetSent m true)) Hnd') as [I1 I2].
    { intros m' K [E|G]; [subst m'; apply Hn; eapply in_fst; exact K|]. apply (Hg m'); [right; exact K|exact G]. }
    split; [eapply ostep_trans; eassumption|]. intros x K. destruct (I2 x K) as [[E|G]|G].
    + subst x. right. left. reflexivity.
    + left. exact G.
    + right. right. exact G.
  - destruct (IH s Hnd') as [I1 I2]; [intros m' K; apply Hg; right; exact K|].
    split; [exact I1|]. intros x K. destruct (I2 x K) as [G|G]; [left; exact G|right; right; exact G].
Qed.

Lemma mark_sent_once : forall l s, NoDup (map fst l) -> (forall m, In (m, false) l -> ~ In m (gone s)) ->
  ostep s (mark_sent l s).
Proof.
  unfold mark_sent. induction l as [|[m b] l IH]; intros s Hnd Hg; cbn [fold_left]; [apply ostep_refl|].
  cbn [map fst] in Hnd. inversion Hnd as [|? ? Hn Hnd']; subst. cbn [snd fst]. destruct b.
  - apply IH; [exact Hnd'|]. intros m' K. apply Hg. right. exact K.
  - assert (N1 : ostep s (add_sent (ev (mark_gone s m) (EvSetSent m false)) m)).
    { eapply ostep_trans; [apply (ostep_mark s m (EvSetSent m false)); [reflexivity|apply Hg; left; reflexivity]|].
      apply nstep_ostep, nstep_same; reflexivity. }
    eapply ostep_trans; [exact N1|]. apply IH; [exact Hnd'|].
    intros m' K [E|G]; [subst m'; apply Hn; eapply in_fst; exact K|]. apply (Hg m'); [right; exact K|exact G].
Qed.

Definition res_o {A} (s : sess) (r : res sess (A * sess)) : Prop :=
  match r with ROk (_, s') => ostep s s' | RFail _ s' => ostep s s' | RPanic => True end.
Lemma res_o_trans {A} s s1 (r : res sess (A * sess)) : ostep s s1 -> res_o s1 r -> res_o s r.
Proof. intros G. destruct r as [[a s']|e s'|]; cbn; auto; intros; eapply ostep_trans; eassumption. Qed.

Lemma ho_peek_once sent s4 :
  NoDup (map fst sent) -> (forall m, In m (map fst sent) -> ~ In m (gone s4)) -> res_o s4 (ho_peek sent s4).
Proof.
  intros Hnd Hg. unfold ho_peek. cbv zeta.
  destruct (mark_rej_once sent s4 Hnd) as [S5 G5]; [intros m K; apply Hg; eapply in_fst; exact K|].
  set (s5 := mark_rej sent s4) in *.
  assert (Bend : forall s, ostep s (ev s EvBlockEnd)) by (intros s; apply nstep_ostep, nstep_ev; reflexivity).
  destruct (s_in s5) as [|b r]; [cbn [res_o]; eapply ostep_trans; [exact S5|apply Bend]|].
  destruct (negb ((b =? 70) || (b =? 59))).
  - pose proof (next_line_eqo true s5) as Hq.
    destruct (next_line true s5) as [[l s']|e s'|]; cbn [res_eqo] in Hq; [| |exact I]; cbn [res_o];
      (eapply ostep_trans; [exact S5|]; eapply ostep_trans; [apply nstep_ostep, nstep_eqo, Hq|apply Bend]).
  - cbn [res_o]. eapply ostep_trans; [exact S5|]. eapply ostep_trans; [|apply Bend].
    apply mark_sent_once; [exact Hnd|]. intros m K G. destruct (G5 m G) as [G0|G1].
    + apply (Hg m); [eapply in_fst; exact K|exact G0].
    + assert (E : (m, true) = (m, false)) by (eapply (NoDup_map_inj fst); [exact Hnd|exact G1|exact K|reflexivity]).
      discriminate.
Qed.

Lemma ho_transfer_once block reply s3 :
  NoDup (map o_mid block) -> (forall q, In q block -> ~ In (o_mid q) (gone s3)) -> res_o s3 (ho_transfer block reply s3).
Proof.
  intros Hnd Hg. unfold ho_transfer. destruct (slice_from 3 reply) as [astr|]; [|exact I].
  destruct (parse_answers _ astr _ []) as [ans|]; [|apply ostep_refl].
  pose proof (send_accepted_once block s3 ans [] Hnd) as Hs. cbn [map app] in Hs.
  assert (G0 : forall m, In m (map o_mid block) -> ~ In m (gone s3)).
  { intros m K. apply in_map_iff in K. destruct K as (q&<-&Hq). apply Hg, Hq. }
  specialize (Hs G0).
  destruct (send_accepted s3 block ans []) as [[s4 sr]|e s4|]; [|exact Hs|exact I].
  destruct Hs as (O4&N4&G4). eapply res_o_trans; [exact O4|].
  apply ho_peek_once; rewrite rev'_rev, map_rev.
  - apply NoDup_rev, N4.
  - intros m K. apply G4. apply in_rev. exact K.
Qed.

Lemma outbound_block_once s props s0 n :
  outbound s = (props, s0) -> NoDup (map o_mid (hob s)) ->
  nstep s s0 /\ NoDup (map o_mid (firstn n props)) /\ (forall q, In q (firstn n props) -> ~ In (o_mid q) (gone s)).
Proof.
  unfold outbound. destruct (h_present (s_h s)); intros H Hnd; injection H as <- <-.
  - split; [apply nstep_ev; reflexivity|]. split.
    + rewrite <- firstn_map. apply NoDup_firstn.
      eapply Permutation_NoDup; [apply Permutation_map, sort_props_perm|]. apply NoDup_map_filter, Hnd.
    + intros q Hq. apply In_firstn in Hq. apply (Permutation_in _ (Permutation_sym (sort_props_perm _))) in Hq.
      apply filter_In in Hq. destruct Hq as [_ Hq]. apply negb_true_iff, mem_bytes_notin in Hq. exact Hq.
  - split; [apply nstep_refl|]. rewrite firstn_nil. split; [constructor|intros q []].
Qed.

Lemma handle_outbound_once s : NoDup (map o_mid (hob s)) -> res_o s (handle_outbound s).
Proof.
  intros Hnd. rewrite handle_outbound_eq. destruct (outbound s) as [props s0] eqn:Eo.
  destruct (outbound_block_once s props s0 (N.to_nat MaxBlockSize) Eo Hnd) as (S0&Nb&Gb).
  destruct props as [|p ps].
  { cbv zeta. cbn [res_o]. apply nstep_ostep. eapply nstep_trans; [exact S0|apply nstep_same; reflexivity]. }
  cbv zeta. set (block := firstn (N.to_nat MaxBlockSize) (p :: ps)) in *. set (s2 := ho_propose block s0).
  assert (S2 : nstep s s2).
  { eapply nstep_trans; [exact S0|]. apply nstep_same; unfold s2, ho_propose; cbv zeta; cbn [wr s_h s_ev].
    - apply (fold_wr_h (fun l => l ++ [13])).
    - apply (fold_wr_ev (fun l => l ++ [13])). }
  pose proof (read_reply_eqo (S (length (s_in s2))) s2) as Q3.
  destruct (read_reply (S (length (s_in s2))) s2) as [[reply s3]|e s3|]; cbn [res_eqo] in Q3; [| |exact I].
  - assert (S3 : nstep s s3) by (eapply nstep_trans; [exact S2|apply nstep_eqo, Q3]).
    eapply res_o_trans; [apply nstep_ostep, S3|]. apply ho_transfer_once; [exact Nb|].
    intros q Hq. unfold gone. rewrite (proj1 S3). apply Gb, Hq.
  - cbn [res_o]. apply nstep_ostep. eapply nstep_trans; [exact S2|apply nstep_eqo, Q3].
Qed.

(* ================================================================================== *)
(* 4. (S1) Any run of Exchange reports each MID at most once                           *)
(* ================================================================================== *)
Lemma turns_once : forall f (my : bool) s, NoDup (map o_mid (hob s)) -> U s -> U (snd (turns f my s)).
Proof.
  induction f as [|f IH]; intros my s Hnd Hu; [exact Hu|]. cbn [turns]. destruct my.
  - pose proof (handle_outbound_once s Hnd) as Ho.
    destruct (handle_outbound s) as [[q s1]|e s1|]; cbn [res_o] in Ho; [| |exact Hu].
    + destruct q; [exact (U_step _ _ Hu Ho)|]. apply IH; [rewrite (proj1 Ho); exact Hnd|exact (U_step _ _ Hu Ho)].
    + exact (U_step _ _ Hu Ho).
  - pose proof (inbound_loop_n (S (length (s_in s))) s [] []) as Hi.
    destruct (inbound_loop (S (length (s_in s))) s [] []) as [[[q props] s1]|e s1|]; cbn [res_n] in Hi;
      [|exact (U_step _ _ Hu (nstep_ostep _ _ Hi))|exact Hu].
    pose proof (U_step _ _ Hu (nstep_ostep _ _ Hi)) as Hu1.
    pose proof (receive_accepted_n props s1) as Hr.
    destruct (receive_accepted s1 props) as [s2|e s2| |]; try exact Hu1.
    + pose proof (U_step _ _ Hu1 (nstep_ostep _ _ Hr)) as Hu2. destruct q; [exact Hu2|].
      apply IH; [|exact Hu2]. unfold hob. rewrite (proj1 Hr), (proj1 Hi). exact Hnd.
    + exact (U_step _ _ Hu1 (nstep_ostep _ _ Hr)).
Qed.

(* (S1) for every side configuration whose outbox has pairwise distinct MIDs and EVERY input: the log
   contains at most one of EvSetSent mid false, EvSetSent mid true, EvSetDeferred mid, and at most once *)
Theorem reported_at_most_once (x : side_cfg) (i : bytes) :
  NoDup (map o_mid (h_outbox (c_handler x))) ->
  forall mid, (length (filter (own mid) (x_events (exchange x i))) <= 1)%nat.
Proof.
  intros Hnd mid.
  assert (K : forall s, NoDup (own_mids (s_ev s)) -> x_events (exchange x i) = rev (s_ev s) ->
              (length (filter (own mid) (x_events (exchange x i))) <= 1)%nat).
  { intros s Hs ->. change (cnt (own mid) (rev (s_ev s)) <= 1)%nat. rewrite cnt_rev. apply own_once, Hs. }
  assert (U0 : U (init_state x i)).
  { unfold U, init_state. destruct (h_present (c_handler x)); cbn; split; try constructor; intros m []. }
  destruct (h_present (c_handler x) && h_prepare_err (c_handler x)) eqn:Pa.
  { apply (K (init_state x i)); [apply U0|].
    unfold exchange. cbv zeta. fold (init_state x i). rewrite Pa. apply finish_events. }
  pose proof (handshake_nopanic (init_state x i)) as Np.
  destruct (handshake (init_state x i)) as [s0|e s0|] eqn:Ha; [| |congruence].
  - destruct (exchange_ok _ _ _ Pa Ha) as [_ EA].
    apply (K (final (negb (c_master x)) s0)); [|exact EA].
    unfold final. rewrite fin_state_ev. unfold run.
    apply turns_once.
    + unfold hob. rewrite (handshake_h _ _ Ha), (proj1 (proj2 (proj2 (init_state_facts x i)))). exact Hnd.
    + unfold U, gone. rewrite (handshake_ev _ _ Ha), (handshake_h _ _ Ha). exact U0.
  - destruct (exchange_fail _ _ _ _ Pa Ha) as [_ EA].
    apply (K (fin_state (xerr e) s0)); [|exact EA].
    rewrite fin_state_ev, (handshake_fail_ev _ _ _ Ha). apply U0.
Qed.

(* in particular at most one EvSetSent (either flag) *)
Lemma sent_ev_own m e : sent_ev m e = true -> own m e = true.
Proof. destruct e; try discriminate. intros H; exact H. Qed.

Corollary sent_at_most_once (x : side_cfg) (i : bytes) :
  NoDup (map o_mid (h_outbox (c_handler x))) ->
  forall mid, (length (filter (sent_ev mid) (x_events (exchange x i))) <= 1)%nat.
Proof.
  intros Hnd mid. rewrite <- (filter_filter_imp (own mid) (sent_ev mid)) by apply sent_ev_own.
  pose proof (reported_at_most_once x i Hnd mid) as H.
  destruct (filter (own mid) (x_events (exchange x i))) as [|a [|b l]]; cbn [filter length] in *; try lia.
  destruct (sent_ev mid a); cbn; lia.
Qed.

(* ================================================================================== *)
(* 5. CONVERGENCE: reported sent EXACTLY ONCE over the two sessions                    *)
(* ================================================================================== *)
Lemma existsb_filter_pos {T} (f : T -> bool) l : existsb f l = true -> (1 <= length (filter f l))%nat.
Proof.
  induction l as [|a l IH]; [discriminate|]. cbn [existsb filter]. destruct (f a); cbn [orb length]; [lia|exact IH].
Qed.
Lemma existsb_filter_nil {T} (f : T -> bool) l : existsb f l = false -> filter f l = [].
Proof.
  induction l as [|a l IH]; [reflexivity|]. cbn [existsb filter]. destruct (f a); cbn [orb]; [discriminate|exact IH].
Qed.

(* from the entry-wise statement of ConvergeP and (S1) *)
Lemma sent_exactly_once_entry (x y : side_cfg) (in_x : bytes) (oy ox' oy' : outcome) (p : oprop) :
  NoDup (map o_mid (h_outbox (c_handler x))) ->
  conv_entry x y (exchange x in_x) oy ox' oy' p -> policy_of (c_handler y) (o_mid p) <> ADefer ->
  length (filter (sent_ev (o_mid p)) (x_events (exchange x in_x) ++ x_events ox')) = 1%nat.
Proof.
  intros Hnd HC Hd. destruct (conv_reported x y _ oy ox' oy' p HC Hd) as (_&A&B).
  rewrite filter_app, app_length.
  pose proof (sent_at_most_once x in_x Hnd (o_mid p)) as H1.
  rewrite <- (filter_filter_imp (own (o_mid p)) (sent_ev (o_mid p)) (x_events ox')) by apply sent_ev_own.
  destruct (sent_in (x_events (exchange x in_x)) (o_mid p)) eqn:Es.
  - rewrite (A eq_refl). cbn [filter length]. apply existsb_filter_pos in Es. lia.
  - destruct (B eq_refl) as [r Hr]. rewrite Hr. unfold sent_in in Es. rewrite (existsb_filter_nil _ _ Es).
    cbn [filter sent_ev]. rewrite beq_bytes_refl. reflexivity.
Qed.

(* REPORTED SENT EXACTLY ONCE: after a session cut anywhere in either direction (or stopped by a
   storage error) and one complete session of the mailboxes it leaves, for every entry the peer does
   not defer, the owner's two logs together contain exactly one EvSetSent for its MID -- in both
   directions *)
Theorem convergence_sent_exactly_once (x y : side_cfg) (in_x in_y in_x' in_y' : bytes) :
  c_master x = negb (c_master y) ->
  hs_compat (if c_master x then x else y) (if c_master x then y else x) ->
  side_sound x -> side_sound y ->
  cut_session x y in_x in_y ->
  let ox := exchange x in_x in let oy := exchange y in_y in
  let x' := next_cfg x ox in let y' := next_cfg y oy in
  closed x' y' in_x' in_y' ->
  let ox' := exchange x' in_x' in let oy' := exchange y' in_y' in
  (forall p, In p (h_outbox (c_handler x)) -> policy_of (c_handler y) (o_mid p) <> ADefer ->
     length (filter (sent_ev (o_mid p)) (x_events ox ++ x_events ox')) = 1%nat) /\
  (forall p, In p (h_outbox (c_handler y)) -> policy_of (c_handler x) (o_mid p) <> ADefer ->
     length (filter (sent_ev (o_mid p)) (x_events oy ++ x_events oy')) = 1%nat).
Proof.
  intros Hrole Hhs Sx Sy Hcut ox oy x' y' Hc ox' oy'.
  destruct (convergence_sym x y in_x in_y in_x' in_y' Hrole Hhs Sx Sy Hcut Hc) as (_&_&C1&C2).
  split; intros p Hp Hd.
  - apply (sent_exactly_once_entry x y in_x oy ox' oy' p); [apply Sx|apply C1, Hp|exact Hd].
  - apply (sent_exactly_once_entry y x in_y ox oy' ox' p); [apply Sy|apply C2, Hp|exact Hd].
Qed.

(* instances: (S1) for the six-message side of DeliverP, every input; and the pair dx_a / dx_b *)
Example reported_at_most_once_dx (i : bytes) (mid : bytes) :
  (length (filter (own mid) (x_events (exchange dx_a i))) <= 1)%nat.
Proof. apply reported_at_most_once. apply nodupb_sound. vm_compute. reflexivity. Qed.

Example convergence_sent_exactly_once_dx (in_a : bytes) (k : nat) (in_a' in_b' : bytes) :
  let oa := exchange dx_a in_a in let ob := exchange dx_b (firstn k (x_wire oa)) in
  in_a = firstn (length in_a) (x_wire ob) ->
  let a' := next_cfg dx_a oa in let b' := next_cfg dx_b ob in
  closed a' b' in_a' in_b' ->
  let oa' := exchange a' in_a' in
  forall p, In p (h_outbox (c_handler dx_a)) -> policy_of (c_handler dx_b) (o_mid p) <> ADefer ->
    length (filter (sent_ev (o_mid p)) (x_events oa ++ x_events oa')) = 1%nat.
Proof.
  intros oa ob Hin a' b' Hc oa'. destruct dx_hypotheses as (H1&H2&H3&H4).
  exact (proj1 (convergence_sent_exactly_once dx_a dx_b in_a (firstn k (x_wire oa)) in_a' in_b' H1
                  (hs_check_sound _ _ H2) (sound_check_sound _ H3) (sound_check_sound _ H4)
                  (safety_shape_cut_session dx_a dx_b in_a k Hin) Hc)).
Qed.

(* the NoDup hypothesis of (S1) cannot be dropped: DeliverP.duplicate_mid_also_deferred (a MID twice
   in the outbox is reported deferred AND sent in one complete session) *)
Example reported_twice_without_nodup :
  let a := cx_side false [dx_prop [65;49]; dx_prop [65;49]] [] [] in let b := cx_side true [] [] [] in
  length (filter (own [65;49]) (x_events (exchange a (cx_in 6 a b)))) = 2%nat.
Proof. vm_compute. reflexivity. Qed.


(* ================================================================================== *)
(* 6. (S2) The peer's handler is given each message at most once in a cut session       *)
(* ================================================================================== *)
Definition proc_mid (e : event) : list bytes := match e with EvProcess m _ _ => [m] | _ => [] end.
Definition proc_mids (E : list event) : list bytes := flat_map proc_mid E.
Lemma proc_mids_app a b : proc_mids (a ++ b) = proc_mids a ++ proc_mids b.
Proof. apply flat_map_app. Qed.

Lemma proc_notin m E : ~ In m (proc_mids E) -> filter (proc m) E = [].
Proof.
  induction E as [|e E IH]; intros H; [reflexivity|]. cbn [filter]. unfold proc_mids in H. cbn [flat_map] in H.
  fold (proc_mids E) in H.
  assert (H2 : ~ In m (proc_mids E)) by (intros K; apply H, in_or_app; right; exact K).
  destruct (proc m e) eqn:Eo; [|apply IH, H2]. exfalso. apply H, in_or_app. left.
  destruct e; try discriminate. cbn [proc] in Eo. apply beq_bytes_true in Eo. subst. left. reflexivity.
Qed.
Lemma proc_once m E : NoDup (proc_mids E) -> (length (filter (proc m) E) <= 1)%nat.
Proof.
  induction E as [|e E IH]; intros H; [cbn; lia|]. unfold proc_mids in H. cbn [flat_map] in H. fold (proc_mids E) in H.
  cbn [filter]. destruct (proc m e) eqn:Eo.
  - destruct e; try discriminate. cbn [proc] in Eo. apply beq_bytes_true in Eo. subst. cbn [proc_mid app] in H.
    inversion H as [|? ? Hn Hd]; subst. rewrite (proc_notin _ _ Hn). cbn. lia.
  - apply IH. destruct e; cbn [proc_mid app] in H; try exact H. inversion H; assumption.
Qed.

(* steps that hand nothing to the handler *)
Definition pn (s s' : sess) : Prop := exists E, s_ev s' = E ++ s_ev s /\ proc_mids E = [].
Lemma pn_refl s : pn s s. Proof. exists []. split; reflexivity. Qed.
Lemma pn_trans a b c : pn a b -> pn b c -> pn a c.
Proof.
  intros (E1&V1&N1) (E2&V2&N2). exists (E2 ++ E1).
  split; [rewrite V2, V1, app_assoc; reflexivity|]. rewrite proc_mids_app, N1, N2. reflexivity.
Qed.
Lemma pn_same s s' : s_h s' = s_h s -> s_ev s' = s_ev s -> pn s s'.
Proof. intros _ H2. exists []. split; [exact H2|reflexivity]. Qed.
Lemma pn_eqo a b : eqo a b -> pn a b.
Proof. intros H. exists []. split; [symmetry; apply eqo_ev, H|reflexivity]. Qed.
Lemma pn_ev s e : proc_mid e = [] -> pn s (ev s e).
Proof. intros H. exists [e]. split; [reflexivity|]. unfold proc_mids. cbn [flat_map]. rewrite H. reflexivity. Qed.
Lemma pn_ev' s s1 e : s_ev s1 = s_ev s -> proc_mid e = [] -> pn s (ev s1 e).
Proof. intros H1 H. exists [e]. split; [cbn [ev s_ev]; rewrite H1; reflexivity|]. unfold proc_mids. cbn [flat_map]. rewrite H. reflexivity. Qed.

Definition res_pn {A} (s : sess) (r : res sess (A * sess)) : Prop :=
  match r with ROk (_, s') => pn s s' | RFail _ s' => pn s s' | RPanic => True end.
Lemma res_pn_trans {A} s s1 (r : res sess (A * sess)) : pn s s1 -> res_pn s1 r -> res_pn s r.
Proof. intros G. destruct r as [[a s']|e s'|]; cbn; auto; intros; eapply pn_trans; eassumption. Qed.

Lemma answer_props_pn props : forall s seen acc, pn s (fst (answer_props s props seen acc)).
Proof.
  induction props as [|p r IH]; intros s seen acc; cbn [answer_props]; [apply pn_refl|].
  destruct (mem_bytes (i_mid p) seen || negb ((i_code p =? Wl2kProposal) || (i_code p =? GzipProposal))
            || negb (h_present (s_h s))); [apply IH|].
  eapply pn_trans; [|apply IH]. apply pn_ev. reflexivity.
Qed.

Lemma il_line_pn s1 props lines line :
  match il_line s1 props lines line with
  | IlDone (ROk (_, s')) => pn s1 s' | IlDone (RFail _ s') => pn s1 s' | _ => True end.
Proof.
  unfold il_line. destruct (prefixb str_PM line); [exact I|].
  destruct line as [|c0 rest0]; [exact I|].
  destruct (c0 =? 59); [exact I|].
  destruct ((length (c0 :: rest0) <? 2)%nat || negb (c0 =? 70)); [apply pn_refl|].
  destruct rest0 as [|c1 r]; [exact I|].
  destruct (in_list c1 [65; 66; 67; 68]).
  { destruct (parse_proposal s1 (c0 :: c1 :: r)) as [p|e s'|] eqn:Ep; try exact I.
    apply parse_proposal_fail in Ep. destruct Ep as [_ ->]. apply pn_refl. }
  destruct (c1 =? 70); [apply pn_same; reflexivity|]. destruct (c1 =? 81); [apply pn_refl|].
  destruct (c1 =? 62); [|apply pn_refl].
  destruct (slice_from 2 (c0 :: c1 :: r)) as [ck|]; [|exact I]. cbv zeta.
  destruct (negb _); [apply pn_refl|].
  destruct props as [|p0 pr]; [apply pn_same; reflexivity|].
  pose proof (answer_props_pn (rev' (p0 :: pr)) (set_nomsgs s1 false) [] []) as Ha.
  destruct (answer_props (set_nomsgs s1 false) (rev' (p0 :: pr)) [] []) as [s2 answered]. cbn [fst] in Ha.
  eapply pn_trans; [apply (pn_same s1 (set_nomsgs s1 false)); reflexivity|].
  eapply pn_trans; [exact Ha|]. apply pn_same; reflexivity.
Qed.

Lemma inbound_loop_pn : forall f s props lines, res_pn s (inbound_loop f s props lines).
Proof.
  induction f as [|f IH]; intros s props lines; [apply pn_refl|]. rewrite inbound_loop_eq.
  pose proof (next_line_eqo true s) as Hn.
  destruct (next_line true s) as [[line s1]|e s1|]; cbn [res_eqo] in Hn; [|apply pn_eqo, Hn|exact I].
  pose proof (il_line_pn s1 props lines line) as Hl.
  destruct (il_line s1 props lines line) as [p l|[[[q pp] s2]|e s2|]].
  - eapply res_pn_trans; [apply pn_eqo, Hn|apply IH].
  - eapply pn_trans; [apply pn_eqo, Hn|exact Hl].
  - eapply pn_trans; [apply pn_eqo, Hn|exact Hl].
  - exact I.
Qed.


Lemma send_accepted_pn props : forall s ans sent,
  match send_accepted s props ans sent with
  | ROk (s', _) => pn s s' | RFail _ s' => pn s s' | RPanic => True end.
Proof.
  induction props as [|p ps IH]; intros s ans sent; cbn [send_accepted]; [apply pn_refl|].
  destruct ans as [|a r]; cbn zeta iota beta; [apply IH|].
  destruct a as [|[| |] off]; try apply IH.
  - pose proof (write_compressed_ev s p off) as Hw.
    destruct (write_compressed s p off) as [s1|e s1|]; [| |exact I].
    + assert (N1 : pn s s1) by (exists []; split; [exact Hw|reflexivity]).
      specialize (IH s1 r ((o_mid p, false) :: sent)).
      destruct (send_accepted s1 ps r _) as [[s' l]|e s'|]; try exact I; eapply pn_trans; eassumption.
    + exists []. split; [exact Hw|reflexivity].
  - specialize (IH (ev (mark_gone s (o_mid p)) (EvSetDeferred (o_mid p))) r sent).
    assert (N1 : pn s (ev (mark_gone s (o_mid p)) (EvSetDeferred (o_mid p)))) by (apply pn_ev'; reflexivity).
    destruct (send_accepted _ ps r sent) as [[s' l]|e s'|]; try exact I; eapply pn_trans; eassumption.
Qed.
Lemma mark_rej_pn : forall l s, pn s (mark_rej l s).
Proof.
  unfold mark_rej. induction l as [|mr l IH]; intros s; cbn [fold_left]; [apply pn_refl|].
  eapply pn_trans; [|apply IH]. destruct (snd mr); [apply pn_ev'; reflexivity|apply pn_refl].
Qed.
Lemma mark_sent_pn : forall l s, pn s (mark_sent l s).
Proof.
  unfold mark_sent. induction l as [|mr l IH]; intros s; cbn [fold_left]; [apply pn_refl|].
  eapply pn_trans; [|apply IH]. destruct (snd mr); [apply pn_refl|].
  exists [EvSetSent (fst mr) false]. split; reflexivity.
Qed.
Lemma ho_peek_pn sent s4 : res_pn s4 (ho_peek sent s4).
Proof.
  unfold ho_peek. cbv zeta. pose proof (mark_rej_pn sent s4) as S5. set (s5 := mark_rej sent s4) in *.
  assert (Bend : forall s, pn s (ev s EvBlockEnd)) by (intros s; apply pn_ev; reflexivity).
  destruct (s_in s5) as [|b r]; [cbn [res_pn]; eapply pn_trans; [exact S5|apply Bend]|].
  destruct (negb ((b =? 70) || (b =? 59))).
  - pose proof (next_line_eqo true s5) as Hq.
    destruct (next_line true s5) as [[l s']|e s'|]; cbn [res_eqo] in Hq; [| |exact I]; cbn [res_pn];
      (eapply pn_trans; [exact S5|]; eapply pn_trans; [apply pn_eqo, Hq|apply Bend]).
  - cbn [res_pn]. eapply pn_trans; [exact S5|]. eapply pn_trans; [apply mark_sent_pn|apply Bend].
Qed.
Lemma handle_outbound_pn s : res_pn s (handle_outbound s).
Proof.
  rewrite handle_outbound_eq. destruct (outbound s) as [props s0] eqn:Eo.
  assert (S0 : pn s s0).
  { unfold outbound in Eo. destruct (h_present (s_h s)); injection Eo as _ <-; [apply pn_ev; reflexivity|apply pn_refl]. }
  destruct props as [|p ps].
  { cbv zeta. cbn [res_pn]. eapply pn_trans; [exact S0|apply pn_same; reflexivity]. }
  cbv zeta. set (block := firstn (N.to_nat MaxBlockSize) (p :: ps)). set (s2 := ho_propose block s0).
  assert (S2 : pn s s2).
  { eapply pn_trans; [exact S0|]. exists []. split; [|reflexivity]. unfold s2, ho_propose. cbv zeta. cbn [wr s_ev app].
    apply (fold_wr_ev (fun l => l ++ [13])). }
  pose proof (read_reply_eqo (S (length (s_in s2))) s2) as Q3.
  destruct (read_reply (S (length (s_in s2))) s2) as [[reply s3]|e s3|]; cbn [res_eqo] in Q3; [| |exact I].
  2:{ cbn [res_pn]. eapply pn_trans; [exact S2|apply pn_eqo, Q3]. }
  eapply res_pn_trans; [eapply pn_trans; [exact S2|apply pn_eqo, Q3]|].
  unfold ho_transfer. destruct (slice_from 3 reply) as [astr|]; [|exact I].
  destruct (parse_answers _ astr _ []) as [ans|]; [|apply pn_refl].
  pose proof (send_accepted_pn block s3 ans []) as Hs.
  destruct (send_accepted s3 block ans []) as [[s4 sr]|e s4|]; [|exact Hs|exact I].
  eapply res_pn_trans; [exact Hs|apply ho_peek_pn].
Qed.

(* ---------- the receiver of a genuine block, with the log as a list ---------- *)
Definition RL (B : list bytes) (s s' : sess) : Prop :=
  exists E, s_ev s' = E ++ s_ev s /\ NoDup (proc_mids E) /\ forall m, In m (proc_mids E) -> In m B.

Lemma RL_pn B s s' : pn s s' -> RL B s s'.
Proof. intros (E&V&N). exists E. split; [exact V|]. rewrite N. split; [constructor|intros m []]. Qed.
Lemma RL_pn_l B a b c : pn a b -> RL B b c -> RL B a c.
Proof.
  intros (E1&V1&N1) (E2&V2&N2&M2). exists (E2 ++ E1). split; [rewrite V2, V1, app_assoc; reflexivity|].
  rewrite proc_mids_app, N1, app_nil_r. split; assumption.
Qed.
Lemma RL_pn_r B a b c : RL B a b -> pn b c -> RL B a c.
Proof.
  intros (E1&V1&N1&M1) (E2&V2&N2). exists (E2 ++ E1). split; [rewrite V2, V1, app_assoc; reflexivity|].
  rewrite proc_mids_app, N2. split; assumption.
Qed.

Definition accm (sent : list (bytes * bool)) : list bytes := accs sent.
Lemma in_accm m sent : In m (accm sent) <-> In (m, false) sent.
Proof.
  unfold accm, accs. rewrite in_map_iff. split.
  - intros ([m' b]&E&H). apply filter_In in H. destruct H as [H Hb]. cbn in E, Hb. subst m'. destruct b; [discriminate|exact H].
  - intros H. exists (m, false). split; [reflexivity|]. apply filter_In. split; [exact H|reflexivity].
Qed.

Lemma receive_any_l block : forall answers s Y,
  length answers = length block -> Forall prop_syn block -> Forall prop_wf block -> NoDup (map o_mid block) ->
  prefix (s_in s) (xfers block answers ++ Y) ->
  match receive_accepted s (zip_props block answers) with
  | RcOk s' => RL (accm (sent_of block answers)) s s'
  | RcErr _ s' => RL (accm (sent_of block answers)) s s'
  | _ => True
  end.
Proof.
  induction block as [|p0 ps IH]; intros answers s Y Hl Hf Hw Hnd Hp.
  { destruct answers; [|discriminate]. cbn. apply RL_pn, pn_refl. }
  destruct answers as [|a0 r]; [discriminate|]. cbn [length] in Hl. injection Hl as Hl.
  inversion Hf as [|? ? Hsyn Hf']; subst. inversion Hw as [|? ? Hwf Hw']; subst.
  cbn [map] in Hnd. inversion Hnd as [|? ? Hn0 Hnd']; subst.
  change (zip_props (p0 :: ps) (a0 :: r)) with (iprop_of p0 a0 :: zip_props ps r).
  cbn [receive_accepted]. change (i_answer (iprop_of p0 a0)) with a0. cbn [xfers] in Hp.
  assert (Hsub : forall m, In m (accm (sent_of ps r)) -> In m (accm (sent_of (p0 :: ps) (a0 :: r)))).
  { intros m K. apply in_accm. apply in_accm in K. cbn [sent_of]. apply in_or_app. right. exact K. }
  assert (Hrest : forall s0 : sess, prefix (s_in s0) (xfers ps r ++ Y) ->
            match receive_accepted s0 (zip_props ps r) with
            | RcOk s' => RL (accm (sent_of (p0 :: ps) (a0 :: r))) s0 s'
            | RcErr _ s' => RL (accm (sent_of (p0 :: ps) (a0 :: r))) s0 s'
            | _ => True
            end).
  { intros s0 Hp0. specialize (IH r s0 Y Hl Hf' Hw' Hnd' Hp0).
    destruct (receive_accepted s0 (zip_props ps r)) as [s'|e s'| |]; try exact I;
      destruct IH as (E&V&N&M); exists E; (split; [exact V|]); (split; [exact N|]); intros m K; apply Hsub, M, K. }
  destruct a0; [|apply Hrest; exact Hp..].
  rewrite <- app_assoc in Hp.
  set (R := xfers ps r ++ Y) in *.
  set (ip := iprop_of p0 AAccept) in *.
  pose proof (read_compressed_eqo s ip) as Hq.
  destruct (read_compressed s ip) as [[cd s1]|e s1|] eqn:Hshort; cbn [res_eqo] in Hq; [|apply RL_pn, pn_eqo, Hq|exact I].
  destruct (in_dec N.eq_dec 0 (firstn 80 (o_title p0))) as [Hnul|Htitle].
  { exfalso. eapply read_compressed_nul_title; [exact Hnul|exact Hp|exact Hshort]. }
  destruct Hp as [x Hx].
  assert (Hin : s_in (ext x s) = xfer_bytes p0 ++ R) by (symmetry; exact Hx).
  pose proof (read_compressed_xfer (ext x s) p0 ip R Htitle eq_refl Hin) as Hlong.
  destruct (read_compressed_agree _ _ _ _ _ _ _ Hshort Hlong) as [Hcd [j' Hj]]. subst cd.
  assert (HR : R = s_in s1 ++ j') by (apply (f_equal s_in) in Hj; exact Hj).
  unfold prop_wf in Hwf. rewrite Hwf.
  assert (Hm0 : In (o_mid p0) (accm (sent_of (p0 :: ps) (AAccept :: r)))) by (apply in_accm; left; reflexivity).
  assert (Hev : forall ok, RL (accm (sent_of (p0 :: ps) (AAccept :: r))) s (ev s1 (EvProcess (o_mid p0) (pm_data p0) ok))).
  { intros ok. exists [EvProcess (o_mid p0) (pm_data p0) ok]. split; [cbn [ev s_ev app]; rewrite (eqo_ev _ _ Hq); reflexivity|].
    cbn. split; [constructor; [intros []|constructor]|]. intros m [<-|[]]. exact Hm0. }
  destruct (mem_bytes (o_mid p0) (h_fail (s_h s1))); [apply Hev|].
  set (s2 := add_recv (ev s1 (EvProcess (o_mid p0) (pm_data p0) (negb false))) (i_mid ip)) in *.
  assert (Hp2 : prefix (s_in s2) (xfers ps r ++ Y)) by (exists j'; exact HR).
  specialize (IH r s2 Y Hl Hf' Hw' Hnd' Hp2).
  assert (Comb : forall s', RL (accm (sent_of ps r)) s2 s' -> RL (accm (sent_of (p0 :: ps) (AAccept :: r))) s s').
  { intros s' (E&V&N&M). exists (E ++ [EvProcess (o_mid p0) (pm_data p0) (negb false)]).
    split; [rewrite V; unfold s2; cbn [add_recv ev s_ev]; rewrite <- (eqo_ev _ _ Hq), <- app_assoc; reflexivity|].
    rewrite proc_mids_app. cbn [proc_mids flat_map proc_mid app]. split.
    - apply NoDup_app_intro; [exact N|constructor; [intros []|constructor]|].
      intros m K [<-|[]]. apply Hn0. apply M, in_accm in K.
      destruct (sent_of_accepted _ _ _ K) as (q&Hq'&<-). apply in_map. eapply in_combine_l; exact Hq'.
    - intros m K. apply in_app_or in K. destruct K as [K|[<-|[]]]; [apply Hsub, M, K|exact Hm0]. }
  destruct (receive_accepted s2 (zip_props ps r)) as [s'|e s'| |]; try exact I; apply Comb, IH.
Qed.

Lemma mark_sent_gone_mono : forall l s m, In m (gone s) -> In m (gone (mark_sent l s)).
Proof.
  unfold mark_sent. induction l as [|mr l IH]; intros s m H; cbn [fold_left]; [exact H|].
  apply IH. destruct (snd mr); [exact H|right; exact H].
Qed.
Lemma mark_sent_gone : forall l s m, In (m, false) l -> In m (gone (mark_sent l s)).
Proof.
  induction l as [|mr l IH]; intros s m H; [destruct H|]. destruct H as [->|H].
  - unfold mark_sent. cbn [fold_left snd fst]. apply (mark_sent_gone_mono l). left. reflexivity.
  - unfold mark_sent. cbn [fold_left]. apply (IH _ m H).
Qed.

Lemma pn_evs s s' : s_ev s' = s_ev s -> pn s s'.
Proof. intros H. exists []. split; [exact H|reflexivity]. Qed.
Lemma pn_fin r s : pn s (fin_state r s).
Proof. exists []. split; [apply fin_state_ev|reflexivity]. Qed.

(* ---------- one turn of the pair, with the logs as lists ---------- *)
Definition xs (cx : option sess) (sx : sess) (B : list bytes) : Prop :=
  match cx with
  | Some sx' => handle_outbound sx = ROk (false, sx') /\ (forall m, In m B -> In m (gone sx'))
  | None => pn sx (final true sx)
  end.
Definition ys (cy : option sess) (sy : sess) (B : list bytes) : Prop :=
  match cy with
  | Some sy2 => s_h sy2 = s_h sy /\ RL B sy sy2
  | None => RL B sy (final false sy)
  end.
Definition turn2 (sx sy : sess) : Prop :=
  exists cx cy,
    (exists B, (forall m, In m B -> ~ In m (gone sx)) /\ xs cx sx B /\ ys cy sy B) /\
    after (Pk (hsig sy)) true sx false cx /\ after (Pk (hsig sx)) false sy true cy /\
    link cx cy /\ less cx cy sx sy.

Lemma finish_turn2 (PY : event -> Prop) sx sy block answers sy1 T3 Y cx :
  length answers = length block -> Forall prop_syn block -> Forall prop_wf block -> NoDup (map o_mid block) ->
  (forall e, Pgen block e -> PY e) -> (forall e, is_answer e -> PY e) ->
  inbound_loop (S (length (s_in sy))) sy [] [] = ROk (false, zip_props block answers, sy1) ->
  ((exists s2, receive_accepted sy1 (zip_props block answers) = RcOk s2 /\ T3 = tailw true s2 /\ final false sy = final true s2)
   \/ (prefix T3 echo /\
       ((exists e s2, receive_accepted sy1 (zip_props block answers) = RcErr e s2 /\ final false sy = fin_state (xerr e) s2)
        \/ (receive_accepted sy1 (zip_props block answers) = RcUnknown /\ final false sy = sy1)))) ->
  prefix (s_in sy1) (xfers block answers ++ Y) ->
  match cx with
  | Some sx' => Y = tailw false sx' /\ prefix (s_in sx') T3 /\ (inlen sx' <= inlen sx)%nat
  | None => prefix Y echo
  end ->
  exists cy, after PY false sy true cy /\ link cx cy /\ less cx cy sx sy /\ ys cy sy (accm (sent_of block answers)).
Proof.
  intros Hlen Hsyn Hwf Hnd HG HA Ei Hcase P1 Hcx.
  pose proof (inbound_loop_step (S (length (s_in sy))) sy [] []) as S1. rewrite Ei in S1. cbn [res_step] in S1.
  apply (step_weaken _ PY _ _ HA) in S1.
  pose proof (inbound_loop_pn (S (length (s_in sy))) sy [] []) as L1. rewrite Ei in L1. cbn [res_pn] in L1.
  pose proof (receive_any block answers sy1 Y Hlen Hsyn P1) as RG.
  pose proof (receive_any_l block answers sy1 Y Hlen Hsyn Hwf Hnd P1) as RGl.
  destruct Hcase as [(sy2&Erc&HT&Hf)|(HTe&[(e&s2&Erc&Hf)|(Erc&Hf)])]; rewrite Erc in RG, RGl.
  - destruct RG as [J1 J2]. apply (step_weaken _ PY _ _ HG) in J2.
    exists (Some sy2). split; [split; [exact Hf|eapply step_trans; eassumption]|].
    assert (YS : ys (Some sy2) sy (accm (sent_of block answers))).
    { cbn [ys]. split; [rewrite (receive_accepted_h _ _ _ Erc); apply (inbound_loop_h _ _ _ _ _ _ Ei)|].
      eapply RL_pn_l; eassumption. }
    destruct cx as [sx'|]; cbn [link less].
    + destruct Hcx as (HY&HP3&Hl). split; [split; [rewrite <- HT; exact HP3|rewrite <- HY; exact J1]|]. split; [|exact YS].
      pose proof (TermP.inbound_loop_ok _ _ _ _ _ _ _ Ei) as K1. pose proof (receive_accepted_inlen (zip_props block answers) sy1) as K2.
      rewrite Erc in K2. lia.
    + split; [eapply prefix_trans; eassumption|]. split; [exact I|exact YS].
  - apply (step_weaken _ PY _ _ HG) in RG.
    exists None. split; [cbn [after]; rewrite Hf; eapply step_trans; [exact S1|]; eapply step_trans; [exact RG|apply step_fin]|].
    assert (YS : ys None sy (accm (sent_of block answers))).
    { cbn [ys]. rewrite Hf. eapply RL_pn_r; [eapply RL_pn_l; eassumption|apply pn_fin]. }
    destruct cx as [sx'|]; cbn [link less]; [|split; [exact I|split; [exact I|exact YS]]].
    destruct Hcx as (_&HP3&_). split; [eapply prefix_trans; eassumption|split; [exact I|exact YS]].
  - exists None. split; [cbn [after]; rewrite Hf; exact S1|].
    assert (YS : ys None sy (accm (sent_of block answers))) by (cbn [ys]; rewrite Hf; apply RL_pn, L1).
    destruct cx as [sx'|]; cbn [link less]; [|split; [exact I|split; [exact I|exact YS]]].
    destruct Hcx as (_&HP3&_). split; [eapply prefix_trans; eassumption|split; [exact I|exact YS]].
Qed.

Lemma joint_turn2 sx sy :
  side_ok sx -> Forall prop_wf (hob sx) -> NoDup (map o_mid (hob sx)) ->
  prefix (s_in sx) (tailw false sy) -> prefix (s_in sy) (tailw true sx) -> turn2 sx sy.
Proof.
  intros Hok Hwf Hndx I1 I2. unfold turn2.
  destruct (outbound sx) as [props s0] eqn:Eo.
  pose proof (outbound_step sx) as S0. rewrite Eo in S0. cbn [snd] in S0.
  apply (step_weaken _ (Pk (hsig sy)) _ _ (Pk_GO _)) in S0.
  destruct props as [|p ps].
  - (* nothing to propose: FF or FQ *)
    destruct (outbound_block _ _ _ Eo) as (_&E0&O0&H0&N0).
    assert (Hho : handle_outbound sx = ROk (s_remote_nomsgs s0, wr s0 (if s_remote_nomsgs s0 then [70; 81; 13] else [70; 70; 13])))
      by (rewrite handle_outbound_eq, Eo; reflexivity).
    pose proof (inbound_loop_ext) as Hext.
    destruct (s_remote_nomsgs s0) eqn:Eq.
    + exists None.
      assert (AX : after (Pk (hsig sy)) true sx false None).
      { cbn [after]. rewrite (final_send_quit _ _ Hho). eapply step_trans; [exact S0|apply step_same; reflexivity]. }
      assert (XS : xs None sx []).
      { cbn [xs]. rewrite (final_send_quit _ _ Hho). pose proof (handle_outbound_pn sx) as Hpn. rewrite Hho in Hpn. exact Hpn. }
      assert (Ht : tailw true sx = [70; 81; 13] ++ []).
      { apply tailw_intro. rewrite (final_send_quit _ _ Hho), wire_wr, (wire_out _ _ O0), app_nil_r. reflexivity. }
      rewrite Ht in I2. destruct I2 as [i2 Hi].
      pose proof (inbound_fq (ext i2 sy) [] (S (length (s_in sy ++ i2)))) as Hfull.
      cbn [ext set_in s_in] in Hfull. specialize (Hfull (eq_sym Hi) ltac:(lia)).
      change (set_in sy (s_in sy ++ i2)) with (ext i2 sy) in Hfull.
      specialize (Hext i2 (S (length (s_in sy))) (S (length (s_in sy ++ i2))) sy [] []).
      unfold inlen in Hext. rewrite app_length in Hext. specialize (Hext ltac:(lia) ltac:(lia)).
      rewrite <- app_length in Hext. rewrite Hfull in Hext. apply relx_back in Hext.
      destruct Hext as [(s1&E1&E2)|(s1&E1)].
      * exists None. split; [exists []; split; [intros m []|]; split; [exact XS|]; cbn [ys];
                              rewrite (final_recv_quit sy [] s1 s1 E1 eq_refl); apply RL_pn, pn_evs; apply (f_equal s_ev) in E2; cbn in E2; symmetry; exact E2|].
        split; [exact AX|]. split; [|split; exact I].
        cbn [after]. rewrite (final_recv_quit sy [] s1 s1 E1 eq_refl).
        apply step_same; [unfold hsig; apply (f_equal s_h) in E2; cbn in E2; rewrite <- E2; reflexivity|].
        apply (f_equal s_ev) in E2. cbn in E2. symmetry. exact E2.
      * exists None. split; [exists []; split; [intros m []|]; split; [exact XS|]; cbn [ys];
                              rewrite (final_recv_fail _ _ _ E1); cbn [xerr fin_state];
                              apply RL_pn, pn_eqo; eapply inbound_loop_lost_eqo; exact E1|].
        split; [exact AX|]. split; [|split; exact I].
        cbn [after]. rewrite (final_recv_fail _ _ _ E1). cbn [xerr fin_state].
        apply step_eqo. eapply inbound_loop_lost_eqo; exact E1.
    + set (sx' := wr s0 [70; 70; 13]) in *. exists (Some sx').
      assert (AX : after (Pk (hsig sy)) true sx false (Some sx')).
      { cbn [after]. split; [apply (final_send_ok _ _ Hho)|]. eapply step_trans; [exact S0|apply step_same; reflexivity]. }
      assert (XS : xs (Some sx') sx []) by (cbn [xs]; split; [exact Hho|intros m []]).
      assert (Ht : tailw true sx = [70; 70; 13] ++ tailw false sx').
      { apply tailw_intro. rewrite (final_send_ok _ _ Hho), tailw_eq. unfold sx'. rewrite wire_wr, (wire_out _ _ O0), <- app_assoc. reflexivity. }
      rewrite Ht in I2. destruct I2 as [i2 Hi].
      pose proof (inbound_ff (ext i2 sy) (tailw false sx') (S (length (s_in sy ++ i2)))) as Hfull.
      cbn [ext set_in s_in] in Hfull. specialize (Hfull (eq_sym Hi) ltac:(lia)).
      change (set_in sy (s_in sy ++ i2)) with (ext i2 sy) in Hfull.
      specialize (Hext i2 (S (length (s_in sy))) (S (length (s_in sy ++ i2))) sy [] []).
      unfold inlen in Hext. rewrite app_length in Hext. specialize (Hext ltac:(lia) ltac:(lia)).
      rewrite <- app_length in Hext. rewrite Hfull in Hext. apply relx_back in Hext.
      destruct Hext as [(s1&E1&E2)|(s1&E1)].
      * exists (Some s1). split; [exists []; split; [intros m []|]; split; [exact XS|]; cbn [ys]; split;
                                   [apply (f_equal s_h) in E2; cbn in E2; symmetry; exact E2|];
                                   apply RL_pn, pn_evs; apply (f_equal s_ev) in E2; cbn in E2; symmetry; exact E2|].
        split; [exact AX|].
        assert (Ho : s_out s1 = s_out sy) by (apply (f_equal s_out) in E2; cbn in E2; symmetry; exact E2).
        assert (Hty : tailw false sy = tailw true s1).
        { apply tailw_intro. rewrite (final_recv_ok sy [] s1 s1 E1 eq_refl), tailw_eq, (wire_out _ _ Ho). reflexivity. }
        split; [|split].
        -- cbn [after]. split; [apply (final_recv_ok sy [] s1 s1 E1 eq_refl)|].
           apply step_same; [unfold hsig; apply (f_equal s_h) in E2; cbn in E2; rewrite <- E2; reflexivity|].
           apply (f_equal s_ev) in E2. cbn in E2. symmetry. exact E2.
        -- cbn [link]. split; [unfold sx'; cbn [wr s_in]; rewrite E0, <- Hty; exact I1|].
           exists i2. apply (f_equal s_in) in E2. cbn [ext set_in set_nomsgs s_in] in E2. exact E2.
        -- cbn [less]. pose proof (TermP.inbound_loop_ok _ _ _ _ _ _ _ E1) as L1.
           unfold inlen in *. unfold sx'. cbn [wr s_in]. rewrite E0. lia.
      * exists None. split; [exists []; split; [intros m []|]; split; [exact XS|]; cbn [ys];
                              rewrite (final_recv_fail _ _ _ E1); cbn [xerr fin_state];
                              apply RL_pn, pn_eqo; eapply inbound_loop_lost_eqo; exact E1|].
        split; [exact AX|]. split; [|split; [|exact I]].
        -- cbn [after]. rewrite (final_recv_fail _ _ _ E1). cbn [xerr fin_state].
           apply step_eqo. eapply inbound_loop_lost_eqo; exact E1.
        -- cbn [link]. assert (Hty : tailw false sy = []).
           { apply tailw_intro. rewrite (final_recv_fail _ _ _ E1). cbn [xerr fin_state].
             rewrite app_nil_r. symmetry. apply wire_eqo. eapply inbound_loop_lost_eqo; exact E1. }
           rewrite Hty in I1. apply prefix_of_nil in I1. unfold sx'. cbn [wr s_in]. rewrite E0, I1. apply prefix_nil.
  - (* a block of proposals *)
    destruct (send_start _ _ _ _ Eo) as (Hbne&Hbin&E2&W2&Hh2&N2&Hstep). pose proof (send_grows _ _ _ _ Eo) as G2.
    destruct (outbound_block_once sx _ s0 (N.to_nat MaxBlockSize) Eo Hndx) as (_&HndB&GbB).
    cbv zeta in *.
    set (block := firstn (N.to_nat MaxBlockSize) (p :: ps)) in *. set (s2 := ho_propose block s0) in *.
    assert (S2 : step (Pk (hsig sy)) sx s2) by (eapply step_trans; [exact S0|apply ho_propose_step]).
    clearbody s2. clearbody block.
    assert (Hsyn : Forall prop_syn block).
    { apply Forall_forall. intros q Hq. apply (proj1 (Forall_forall _ _) Hok). apply Hbin, Hq. }
    destruct (grows_wire _ _ G2) as [T2 HT2].
    assert (HwfB : Forall prop_wf block).
    { apply Forall_forall. intros q Hq. apply (proj1 (Forall_forall _ _) Hwf). apply Hbin, Hq. }
    assert (Ht : tailw true sx = proposal_bytes block ++ T2).
    { apply tailw_intro. rewrite HT2, W2, <- app_assoc. reflexivity. }
    rewrite Ht in I2.
    destruct (recv_block_pol sy block T2 Hbne Hsyn I2) as [(answers&sy1&Hlen&Ei&P1&W1&Hh1&HR)|(s'&Ei&Qi)].
    2:{ (* the receiver has not seen the whole block: it stops, and so does the sender *)
        assert (Hty : tailw false sy = []).
        { apply tailw_intro. rewrite (final_recv_fail _ _ _ Ei). cbn [xerr fin_state].
          rewrite app_nil_r. symmetry. apply wire_eqo. exact Qi. }
        rewrite Hty in I1. apply prefix_of_nil in I1.
        destruct (sender_noreply s2 ltac:(rewrite E2; exact I1)) as (e&s3&Er&Q3).
        rewrite Er in Hstep. exists None, None.
        split; [exists []; split; [intros m []|]; split; cbn [xs ys];
                [pose proof (handle_outbound_pn sx) as Hpn; rewrite Hstep in Hpn; rewrite (final_send_fail _ _ _ Hstep);
                 eapply pn_trans; [exact Hpn|apply pn_fin]
                |rewrite (final_recv_fail _ _ _ Ei); cbn [xerr fin_state]; apply RL_pn, pn_eqo, Qi]|].
        split; [|split; [|split; exact I]].
        - cbn [after]. rewrite (final_send_fail _ _ _ Hstep).
          eapply step_trans; [exact S2|]. eapply step_trans; [apply step_eqo, Q3|apply step_fin].
        - cbn [after]. rewrite (final_recv_fail _ _ _ Ei). cbn [xerr fin_state]. apply step_eqo, Qi. }
    assert (Hane : answers <> []) by (intros ->; destruct block; [congruence|discriminate]).
    assert (HgB : forall m, In m (accm (sent_of block answers)) -> ~ In m (gone sx)).
    { intros m Km. apply in_accm in Km. destruct (sent_of_accepted _ _ _ Km) as (q&Hq&<-).
      apply GbB. eapply in_combine_l; exact Hq. }
    destruct (recv_tail_cases _ _ _ Ei) as (T3&HT3&Hcase).
    assert (Hty : tailw false sy = fs_line answers ++ T3).
    { apply tailw_intro. rewrite HT3, W1, <- app_assoc. reflexivity. }
    rewrite Hty, <- E2 in I1.
    assert (HGen : forall e, Pgen block e -> Pk (hsig sx) e) by (intros e; apply Pk_gen; exact Hbin).
    assert (Fin : forall cx Y, after (Pk (hsig sy)) true sx false cx ->
              prefix (s_in sy1) (xfers block answers ++ Y) ->
              match cx with
              | Some sx' => Y = tailw false sx' /\ prefix (s_in sx') T3 /\ (inlen sx' <= inlen sx)%nat
              | None => prefix Y echo
              end ->
              xs cx sx (accm (sent_of block answers)) ->
              turn2 sx sy).
    { intros cx Y AX P1' Hcx XS.
      destruct (finish_turn2 (Pk (hsig sx)) sx sy block answers sy1 T3 Y cx Hlen Hsyn HwfB HndB HGen (Pk_Ans _) Ei Hcase P1' Hcx)
        as (cy&AY&HL&HS&YS).
      exists cx, cy. split; [exists (accm (sent_of block answers)); split; [exact HgB|split; assumption]|].
      repeat (split; [assumption|]); assumption. }
    destruct (send_reply s2 answers T3 Hane I1) as [(s3&Er&P3&Q3)|(s'&Er&Q3)]; rewrite Er in Hstep.
    2:{ (* the sender does not get the answer: it has written nothing after the block *)
        apply (Fin None []); [| | |cbn [xs]; pose proof (handle_outbound_pn sx) as Hpn; rewrite Hstep in Hpn;
                                   rewrite (final_send_fail _ _ _ Hstep);
                                   eapply pn_trans; [exact Hpn|apply pn_fin]].
        - cbn [after]. rewrite (final_send_fail _ _ _ Hstep).
          eapply step_trans; [exact S2|]. eapply step_trans; [apply step_eqo, Q3|apply step_fin].
        - rewrite (final_send_fail _ _ _ Hstep) in HT2. cbn [xerr fin_state] in HT2.
          rewrite <- (wire_eqo _ _ Q3) in HT2. rewrite <- (app_nil_r (wire s2)) in HT2 at 1.
          apply app_inv_head in HT2. subst T2. apply prefix_of_nil in P1. rewrite P1. apply prefix_nil.
        - apply prefix_nil. }
    destruct (send_transfer_step block answers s3 Hlen Hsyn) as (s4&Etr&W4&I4&S4).
    cbn [app] in Etr, Hstep. rewrite Etr in Hstep.
    assert (WM : forall e, Pmarks (sent_of block answers) e -> Pk (hsig sy) e).
    { intros e [->|[[m ->]|(m&->&Hin)]]; try exact I.
      destruct (sent_of_rejected _ _ _ Hin) as (q&Hq&<-). exact (HR q AReject Hq eq_refl). }
    assert (S4' : step (Pk (hsig sy)) sx s4).
    { eapply step_trans; [exact S2|]. eapply step_trans; [apply step_eqo, Q3|].
      eapply step_weaken; [apply Pk_Def|exact S4]. }
    pose proof (ho_peek_step (sent_of block answers) s4) as Hpk.
    assert (Ws4 : wire s4 = wire s2 ++ xfers block answers) by (rewrite W4, <- (wire_eqo _ _ Q3); reflexivity).
    assert (Kfail : forall e s', ho_peek (sent_of block answers) s4 = RFail e s' ->
              turn2 sx sy).
    { intros e s' Hp. rewrite Hp in Hpk, Hstep. destruct Hpk as [Sp Op].
      destruct (fin_state_wire (xerr e) s') as (Y&HY&HYe).
      apply (Fin None Y); [| | |cbn [xs]; pose proof (handle_outbound_pn sx) as Hpn; rewrite Hstep in Hpn;
                                 rewrite (final_send_fail _ _ _ Hstep);
                                 eapply pn_trans; [exact Hpn|apply pn_fin]].
      - cbn [after]. rewrite (final_send_fail _ _ _ Hstep).
        eapply step_trans; [exact S4'|]. eapply step_trans; [eapply step_weaken; [exact WM|exact Sp]|apply step_fin].
      - rewrite (final_send_fail _ _ _ Hstep), HY, (wire_out _ _ Op), Ws4, <- app_assoc in HT2.
        apply app_inv_head in HT2. subst T2. exact P1.
      - exact HYe. }
    destruct (peek_cases (sent_of block answers) s4) as [[E4 Hp]|[(b&r&Eb&Hb&Hp)|(b&r&e&s'&Eb&Hb1&Hb2&Hp)]].
    + eapply Kfail; exact Hp.
    + rewrite Hp in Hpk, Hstep. destruct Hpk as [Sp Op].
      set (sx' := ev (mark_sent (sent_of block answers) (mark_rej (sent_of block answers) s4)) EvBlockEnd) in *.
      assert (Ein' : s_in sx' = s_in s3) by (unfold sx'; cbn [ev s_in]; rewrite mark_sent_in, mark_rej_in; exact I4).
      apply (Fin (Some sx') (tailw false sx'));
        [| | |cbn [xs]; split; [exact Hstep|]; intros m Km; apply in_accm in Km; unfold sx', gone; cbn [ev s_h];
              apply (mark_sent_gone _ _ _ Km)].
      * cbn [after]. split; [apply (final_send_ok _ _ Hstep)|].
        eapply step_trans; [exact S4'|]. eapply step_weaken; [exact WM|exact Sp].
      * rewrite (final_send_ok _ _ Hstep), tailw_eq, (wire_out _ _ Op), Ws4, <- app_assoc in HT2.
        apply app_inv_head in HT2. subst T2. exact P1.
      * split; [reflexivity|]. split; [rewrite Ein'; exact P3|].
        pose proof (TermP.read_reply_ok _ _ _ _ Er) as L3. unfold inlen in *. rewrite Ein'. rewrite E2 in L3. lia.
    + eapply Kfail; exact Hp.
Qed.

(* ---------- the run of the pair, with the logs as lists ---------- *)
Lemma pn_mids s s' : pn s s' -> proc_mids (s_ev s') = proc_mids (s_ev s).
Proof. intros (E&V&N). rewrite V, proc_mids_app, N. reflexivity. Qed.

Lemma RL_nodup B G s s' : RL B s s' -> NoDup (proc_mids (s_ev s)) ->
  (forall m, In m B -> ~ In m G) -> (forall m, In m (proc_mids (s_ev s)) -> In m G) ->
  NoDup (proc_mids (s_ev s')) /\ (forall m, In m (proc_mids (s_ev s')) -> In m B \/ In m (proc_mids (s_ev s))).
Proof.
  intros (E&V&N&M) N0 HB H0. rewrite V, proc_mids_app. split.
  - apply NoDup_app_intro; [exact N|exact N0|]. intros m K1 K0. apply (HB m (M m K1)), H0, K0.
  - intros m K. apply in_app_or in K. destruct K as [K|K]; [left; apply M, K|right; exact K].
Qed.

Lemma quiet_recv_pn s : prefix (s_in s) echo -> pn s (final false s).
Proof.
  intros Hp. destruct (next_line_echo s Hp) as (e&s'&En&Hq).
  assert (Ei : inbound_loop (S (length (s_in s))) s [] [] = RFail e s') by (rewrite inbound_loop_eq, En; reflexivity).
  rewrite (final_recv_fail _ _ _ Ei). eapply pn_trans; [apply pn_eqo, Hq|apply pn_fin].
Qed.
Lemma quiet_send_pn s : prefix (s_in s) echo -> pn s (final true s).
Proof.
  intros Hp. pose proof (handle_outbound_pn s) as Hpn. pose proof (handle_outbound_nopanic s) as Np.
  destruct (handle_outbound s) as [[q s1]|e s1|] eqn:Hho; [| |congruence]; cbn [res_pn] in Hpn.
  - destruct q; [rewrite (final_send_quit _ _ Hho); exact Hpn|].
    rewrite (final_send_ok _ _ Hho). eapply pn_trans; [exact Hpn|]. apply quiet_recv_pn.
    destruct (handle_outbound_sfx _ _ _ Hho) as [pre Hpre].
    destruct (outbound s) as [props s0] eqn:Eo. destruct props as [|p ps].
    + destruct (outbound_block _ _ _ Eo) as (_&E0&_). rewrite handle_outbound_eq, Eo in Hho. cbv zeta in Hho.
      injection Hho as _ <-. cbn [wr s_in]. rewrite E0. exact Hp.
    + exfalso. destruct (send_start _ _ _ _ Eo) as (_&_&E2&_&_&_&Hstep). cbv zeta in *.
      set (block := firstn (N.to_nat MaxBlockSize) (p :: ps)) in *. set (s2 := ho_propose block s0) in *.
      assert (Hp2 : prefix (s_in s2) echo) by (rewrite E2; exact Hp).
      destruct (next_line_echo s2 Hp2) as (e&s'&En&Hq).
      assert (Er : read_reply (S (length (s_in s2))) s2 = RFail e s') by (cbn [read_reply]; rewrite En; reflexivity).
      rewrite Er in Hstep. rewrite Hstep in Hho. discriminate.
  - rewrite (final_send_fail _ _ _ Hho). eapply pn_trans; [exact Hpn|apply pn_fin].
Qed.

Definition okside (s : sess) : Prop := side_ok s /\ Forall prop_wf (hob s) /\ NoDup (map o_mid (hob s)).
Lemma okside_hob s s' : hob s' = hob s -> okside s -> okside s'.
Proof. unfold okside, side_ok. intros ->. auto. Qed.

Lemma joint_once : forall n sx sy,
  (inlen sx + inlen sy < n)%nat -> okside sx -> okside sy ->
  prefix (s_in sx) (tailw false sy) -> prefix (s_in sy) (tailw true sx) ->
  NoDup (proc_mids (s_ev sy)) -> (forall m, In m (proc_mids (s_ev sy)) -> In m (gone sx)) ->
  NoDup (proc_mids (s_ev sx)) -> (forall m, In m (proc_mids (s_ev sx)) -> In m (gone sy)) ->
  NoDup (proc_mids (s_ev (final true sx))) /\ NoDup (proc_mids (s_ev (final false sy))).
Proof.
  induction n as [|n IH]; intros sx sy Hn Okx Oky I1 I2 Ny Gy Nx Gx; [lia|].
  destruct Okx as (Okx&Wx&Ndx).
  destruct (joint_turn2 sx sy Okx Wx Ndx I1 I2) as (cx&cy&(B&HB&XS&YS)&AX&AY&HL&HS).
  destruct cx as [sx'|], cy as [sy2|]; cbn [after link less xs ys] in AX, AY, HL, HS, XS, YS.
  - destruct AX as [Fx _]. destruct AY as [Fy _]. destruct HL as [J1 J2]. destruct XS as [Hho HBg]. destruct YS as [Hhy HRL].
    pose proof (handle_outbound_pn sx) as Hpn. rewrite Hho in Hpn. cbn [res_pn] in Hpn.
    pose proof (handle_outbound_once sx Ndx) as Hos. rewrite Hho in Hos. cbn [res_o] in Hos. destruct Hos as (Hobx&Gmono&_).
    destruct (RL_nodup B (gone sx) sy sy2 HRL Ny HB Gy) as [Ny2 My2].
    destruct (IH sy2 sx') as [K1 K2]; try assumption.
    + lia.
    + apply (okside_hob sy); [unfold hob; rewrite Hhy; reflexivity|exact Oky].
    + apply (okside_hob sx); [exact Hobx|split; [exact Okx|split; assumption]].
    + rewrite (pn_mids _ _ Hpn). exact Nx.
    + intros m K. rewrite (pn_mids _ _ Hpn) in K. unfold gone. rewrite Hhy. apply Gx, K.
    + intros m K. destruct (My2 m K) as [K'|K']; [apply HBg, K'|apply Gmono, Gy, K'].
    + rewrite Fx, Fy. split; assumption.
  - destruct AX as [Fx _]. destruct XS as [Hho _].
    pose proof (handle_outbound_pn sx) as Hpn. rewrite Hho in Hpn. cbn [res_pn] in Hpn.
    split; [|apply (RL_nodup B (gone sx) sy _ YS Ny HB Gy)].
    rewrite Fx, (pn_mids _ _ (quiet_recv_pn sx' HL)), (pn_mids _ _ Hpn). exact Nx.
  - destruct AY as [Fy _]. destruct YS as [_ HRL]. split; [rewrite (pn_mids _ _ XS); exact Nx|].
    rewrite Fy. apply (RL_nodup B (gone sx) sy _ (RL_pn_r _ _ _ _ HRL (quiet_send_pn sy2 HL)) Ny HB Gy).
  - split; [rewrite (pn_mids _ _ XS); exact Nx|apply (RL_nodup B (gone sx) sy _ YS Ny HB Gy)].
Qed.

(* ---------- from the turn loop to Exchange ---------- *)
Lemma init_proc cfg i : proc_mids (s_ev (init_state cfg i)) = [].
Proof. unfold init_state. destruct (h_present (c_handler cfg)); reflexivity. Qed.

(* (S2) in a cut session of two library sides, the handler of a is given each MID at most once
   (successfully or not) *)
Theorem processed_at_most_once (a b : side_cfg) (in_a in_b : bytes) :
  c_master a = negb (c_master b) ->
  hs_compat (if c_master a then a else b) (if c_master a then b else a) ->
  side_sound a -> side_sound b ->
  cut_session a b in_a in_b ->
  forall mid, (length (filter (proc mid) (x_events (exchange a in_a))) <= 1)%nat.
Proof.
  intros Hrole Hhs SSa SSb [HI HP] mid.
  pose proof (side_sound_syn a SSa) as Sa. pose proof (side_sound_syn b SSb) as Sb.
  set (P := in_b) in *.
  assert (K : forall s, NoDup (proc_mids (s_ev s)) -> x_events (exchange a in_a) = rev (s_ev s) ->
              (length (filter (proc mid) (x_events (exchange a in_a))) <= 1)%nat).
  { intros s Hs ->. change (cnt (proc mid) (rev (s_ev s)) <= 1)%nat. rewrite cnt_rev. apply proc_once, Hs. }
  destruct (h_present (c_handler a) && h_prepare_err (c_handler a)) eqn:Pa.
  { apply (K (init_state a in_a)); [rewrite init_proc; constructor|].
    unfold exchange. cbv zeta. fold (init_state a in_a). rewrite Pa. apply finish_events. }
  pose proof (handshake_nopanic (init_state a in_a)) as Npa.
  destruct (handshake (init_state a in_a)) as [sa0|ea sa0|] eqn:Ha; [| |congruence].
  2:{ destruct (exchange_fail _ _ _ _ Pa Ha) as [_ EA]. apply (K (fin_state (xerr ea) sa0)); [|exact EA].
      rewrite fin_state_ev, (handshake_fail_ev _ _ _ Ha), init_proc. constructor. }
  destruct (exchange_ok _ _ _ Pa Ha) as [WA EA].
  apply (K (final (negb (c_master a)) sa0)); [|exact EA]. clear K EA.
  assert (Ea0 : proc_mids (s_ev sa0) = []) by (rewrite (handshake_ev _ _ Ha); apply init_proc).
  destruct (s_in sa0) as [|b0 r0] eqn:Ein0.
  { destruct (negb (c_master a));
      [rewrite (pn_mids _ _ (quiet_send_pn sa0 ltac:(rewrite Ein0; apply prefix_nil)))
      |rewrite (pn_mids _ _ (quiet_recv_pn sa0 ltac:(rewrite Ein0; apply prefix_nil)))]; rewrite Ea0; constructor. }
  assert (Hne : s_in sa0 <> []) by (rewrite Ein0; discriminate). clear Ein0.
  rewrite WA in HP.
  destruct (h_present (c_handler b) && h_prepare_err (c_handler b)) eqn:Pb.
  { (* B's handler failed to prepare: B has sent the error report only *)
    exfalso. assert (W : x_wire (exchange b P) = echo).
    { unfold exchange. cbv zeta. rewrite Pb, finish_wire. cbn [fin_state]. rewrite wire_wr.
      destruct (h_present (c_handler b)); reflexivity. }
    rewrite W in HI. eapply handshake_echo; [|exact Ha]. rewrite (proj1 (init_state_facts a in_a)). exact HI. }
  destruct (init_state_facts a in_a) as (_&_&Hha&Hma&_).
  assert (Oa : side_ok sa0).
  { unfold side_ok, hob. rewrite (handshake_h _ _ Ha), Hha. exact Sa. }
  assert (OKa : okside sa0).
  { split; [exact Oa|]. unfold hob. rewrite (handshake_h _ _ Ha), Hha. split; [apply SSa|apply SSa]. }
  assert (Fin : forall sb0 (mb : bool), handshake (init_state b P) = ROk sb0 -> mb = negb (c_master b) ->
            side_ok sb0 /\ x_wire (exchange b P) = wire sb0 ++ tailw mb sb0 /\ okside sb0 /\ proc_mids (s_ev sb0) = []).
  { intros sb0 mb Hb ->. destruct (exchange_ok _ _ _ Pb Hb) as [W E].
    assert (Hob : hob sb0 = h_outbox (c_handler b)).
    { unfold hob. rewrite (handshake_h _ _ Hb), (proj1 (proj2 (proj2 (init_state_facts b P)))). reflexivity. }
    split; [unfold side_ok; rewrite Hob; exact Sb|]. split; [rewrite W; apply tailw_eq|]. split.
    - split; [unfold side_ok; rewrite Hob; exact Sb|]. rewrite Hob. split; [apply SSb|apply SSb].
    - rewrite (handshake_ev _ _ Hb). apply init_proc. }
  destruct (c_master a) eqn:Ma; cbn [negb] in *.
  - (* A is the master *)
    assert (Mb : c_master b = false) by (destruct (c_master b); [discriminate|reflexivity]).
    destruct Hhs as (M&S&sm&ss&Hm1&Hm2&Hm3&Hs1&Hs2&Hs3).
    (* what A wrote in its handshake *)
    assert (Wsa : wire sa0 = M).
    { pose proof (handshake_master_out (init_state a (S ++ [70])) in_a sm
                    (eq_trans (proj1 (proj2 (proj2 (proj2 (init_state_facts a (S ++ [70])))))) Ma) Hm1) as Ho.
      rewrite init_state_set_in, Ha in Ho. rewrite <- Hm3. apply wire_out, Ho. }
    rewrite tailw_eq, Wsa in HP.
    (* B reads it *)
    assert (Hj : exists j, P = M ++ j).
    { destruct (prefix_comparable P M _ HP (prefix_app_l M _)) as [[j Hj]|Hj]; [|exact Hj].
      rewrite Hj, init_state_ext in Hs1. destruct (hs_back _ _ _ Hs1) as [(s1&_&E)|(s1&Hb&_)].
      - apply (f_equal s_in) in E. cbn [ext set_in s_in] in E. rewrite Hs2 in E. symmetry in E.
        apply app_eq_nil in E. destruct E as [_ ->]. exists []. rewrite Hj, !app_nil_r. reflexivity.
      - exfalso. destruct (exchange_fail _ _ _ _ Pb Hb) as [W _]. cbn [xerr fin_state] in W.
        pose proof (handshake_slave_fail_out _ _ _
                      (eq_trans (proj1 (proj2 (proj2 (proj2 (init_state_facts b P))))) Mb) Hb) as Ho.
        rewrite (proj1 (proj2 (init_state_facts b P))) in Ho. unfold wire in W. rewrite Ho in W. cbn in W.
        rewrite W in HI. apply prefix_of_nil in HI. subst in_a.
        destruct (hs_sfx _ _ Ha) as [x Hx]. rewrite (proj1 (init_state_facts a [])) in Hx.
        symmetry in Hx. apply app_eq_nil in Hx. apply Hne, Hx. }
    destruct Hj as [j Hj].
    assert (Hb : handshake (init_state b P) = ROk (ext j ss)) by (rewrite Hj, init_state_ext; apply hs_forward, Hs1).
    destruct (Fin _ true Hb ltac:(rewrite Mb; reflexivity)) as (Ob&WB&OKb&Eb0).
    change (wire (ext j ss)) with (wire ss) in WB. rewrite Hs3 in WB.
    destruct (tailw_send_F (ext j ss)) as [rF HF].
    (* A has read exactly S *)
    assert (Hcons : in_a = S ++ s_in sa0).
    { rewrite WB, HF in HI.
      destruct (prefix_comparable in_a (S ++ [70]) _ HI) as [[j' Hj']|[j' Hj']].
      { exists rF. rewrite <- app_assoc. reflexivity. }
      - rewrite Hj', init_state_ext in Hm1. destruct (hs_back _ _ _ Hm1) as [(s1&E1&E)|(s1&E1&_)]; rewrite Ha in E1; [|discriminate].
        injection E1 as <-. apply (f_equal s_in) in E. cbn [ext set_in s_in] in E. rewrite Hm2 in E.
        apply (app_inv_tail j'). rewrite <- Hj', <- app_assoc, <- E. reflexivity.
      - rewrite Hj', init_state_ext, (hs_forward _ _ _ Hm1) in Ha. injection Ha as <-.
        cbn [ext set_in s_in]. rewrite Hm2, Hj', <- app_assoc. reflexivity. }
    destruct (joint_once (Datatypes.S (inlen (ext j ss) + inlen sa0)%nat) (ext j ss) sa0) as [_ K2];
      [lia|exact OKb|exact OKa| | |rewrite Ea0; constructor|rewrite Ea0; intros m []|rewrite Eb0; constructor|rewrite Eb0; intros m []|exact K2].
    + cbn [ext set_in s_in]. rewrite Hs2. cbn [app]. rewrite Hj in HP. apply prefix_app_inv in HP. exact HP.
    + rewrite WB, Hcons in HI. apply prefix_app_inv in HI. exact HI.
  - (* A is the slave *)
    assert (Mb : c_master b = true) by (destruct (c_master b); [reflexivity|discriminate]).
    destruct Hhs as (M&S&sm&ss&Hm1&Hm2&Hm3&Hs1&Hs2&Hs3).
    (* whatever B does, it has written M first *)
    assert (HX : exists X, x_wire (exchange b P) = M ++ X).
    { pose proof (handshake_master_out (init_state b (S ++ [70])) P sm
                    (eq_trans (proj1 (proj2 (proj2 (proj2 (init_state_facts b (S ++ [70])))))) Mb) Hm1) as Ho.
      rewrite init_state_set_in in Ho. pose proof (handshake_nopanic (init_state b P)) as Np.
      destruct (handshake (init_state b P)) as [sb0|e sB|] eqn:Hb; [| |congruence].
      - destruct (Fin _ false eq_refl ltac:(rewrite Mb; reflexivity)) as (_&W&_). eexists. rewrite W, <- Hm3, (wire_out _ _ Ho). reflexivity.
      - destruct (exchange_fail _ _ _ _ Pb Hb) as [W _]. destruct (grows_wire _ _ (fin_state_grows (xerr e) sB)) as [d Hd].
        exists d. rewrite W, Hd, <- Hm3, (wire_out _ _ Ho). reflexivity. }
    destruct HX as [X HX].
    (* A reads it *)
    assert (Hj : exists j, in_a = M ++ j).
    { rewrite HX in HI. destruct (prefix_comparable in_a M _ HI (prefix_app_l M _)) as [[j Hj]|Hj]; [|exact Hj].
      rewrite Hj, init_state_ext in Hs1. destruct (hs_back _ _ _ Hs1) as [(s1&E1&E)|(s1&E1&_)]; rewrite Ha in E1; [|discriminate].
      apply (f_equal s_in) in E. cbn [ext set_in s_in] in E. rewrite Hs2 in E. symmetry in E.
      apply app_eq_nil in E. destruct E as [_ ->]. exists []. rewrite Hj, !app_nil_r. reflexivity. }
    destruct Hj as [j Hj].
    assert (Esa : sa0 = ext j ss).
    { rewrite Hj, init_state_ext, (hs_forward _ _ _ Hs1) in Ha. injection Ha as <-. reflexivity. }
    assert (Ej : s_in sa0 = j) by (rewrite Esa; cbn [ext set_in s_in]; rewrite Hs2; reflexivity).
    assert (Wsa : wire sa0 = S) by (rewrite Esa; exact Hs3).
    rewrite tailw_eq, Wsa in HP. destruct (tailw_send_F sa0) as [rF HF].
    (* B reads A's greeting *)
    assert (Hb : exists sb0, handshake (init_state b P) = ROk sb0 /\ P = S ++ s_in sb0 /\ wire sb0 = M).
    { rewrite HF in HP.
      destruct (prefix_comparable P (S ++ [70]) _ HP) as [[j2 Hj2]|[j2 Hj2]].
      { exists rF. rewrite <- app_assoc. reflexivity. }
      - rewrite Hj2, init_state_ext in Hm1. destruct (hs_back _ _ _ Hm1) as [(s1&E1&E)|(s1&E1&L)].
        + exists s1. split; [exact E1|]. split.
          * apply (f_equal s_in) in E. cbn [ext set_in s_in] in E. rewrite Hm2 in E.
            apply (app_inv_tail j2). rewrite <- Hj2, <- app_assoc, <- E. reflexivity.
          * rewrite <- Hm3, E. reflexivity.
        + exfalso. destruct (exchange_fail _ _ _ _ Pb E1) as [W _]. cbn [xerr fin_state] in W.
          destruct L as (L&_). destruct (pre_wire _ _ L) as [d Hd]. rewrite Hm3 in Hd.
          rewrite W, Hj, Hd in HI. apply prefix_length in HI. rewrite !app_length in HI.
          apply Hne. rewrite Ej. destruct j; [reflexivity|cbn [length] in HI; lia].
      - exists (ext j2 sm). split; [rewrite Hj2, init_state_ext; apply hs_forward, Hm1|].
        split; [cbn [ext set_in s_in]; rewrite Hm2, Hj2, <- app_assoc; reflexivity|exact Hm3]. }
    destruct Hb as (sb0&Hb&HPb&Wsb).
    destruct (Fin _ false Hb ltac:(rewrite Mb; reflexivity)) as (Ob&WB&OKb&Eb0).
    destruct (joint_once (Datatypes.S (inlen sa0 + inlen sb0)%nat) sa0 sb0) as [K2 _];
      [lia|exact OKa|exact OKb| | |rewrite Eb0; constructor|rewrite Eb0; intros m []|rewrite Ea0; constructor|rewrite Ea0; intros m []|exact K2].
    + rewrite WB, Wsb, Hj in HI. apply prefix_app_inv in HI. rewrite Ej. exact HI.
    + rewrite HPb in HP. apply prefix_app_inv in HP. exact HP.
Qed.

(* ================================================================================== *)
(* 7. CONVERGENCE: delivered EXACTLY ONCE and reported sent EXACTLY ONCE                *)
(* ================================================================================== *)
Lemma stored_ev_proc m e : stored_ev m e = true -> proc m e = true.
Proof. destruct e as [| | | | |m' d [|]|]; try discriminate. intros H; exact H. Qed.

Lemma stored_le_proc m l : (length (filter (proc m) l) <= 1)%nat -> (length (filter (stored_ev m) l) <= 1)%nat.
Proof.
  intros H. rewrite <- (filter_filter_imp (proc m) (stored_ev m)) by apply stored_ev_proc.
  destruct (filter (proc m) l) as [|a [|b r]]; cbn [filter length] in *; try lia. destruct (stored_ev m a); cbn; lia.
Qed.

(* After a session cut anywhere in either direction (or stopped by a storage error) and one complete
   session of the mailboxes it leaves: for every entry p of x's outbox that y's policy accepts, the
   SUCCESSFUL ProcessInbound calls for its MID in y's two logs together are exactly one, with the
   entry's own message (a failed store of the first session, EvProcess _ _ false, is not counted),
   and x's two logs together contain exactly one EvSetSent for the MID.  (x and y are
   interchangeable: cut_session_sym; `closed` is symmetric.) *)
Theorem convergence_exactly_once (x y : side_cfg) (in_x in_y in_x' in_y' : bytes) :
  c_master x = negb (c_master y) ->
  hs_compat (if c_master x then x else y) (if c_master x then y else x) ->
  side_sound x -> side_sound y ->
  cut_session x y in_x in_y ->
  let ox := exchange x in_x in let oy := exchange y in_y in
  let x' := next_cfg x ox in let y' := next_cfg y oy in
  closed x' y' in_x' in_y' ->
  let ox' := exchange x' in_x' in let oy' := exchange y' in_y' in
  forall p, In p (h_outbox (c_handler x)) -> policy_of (c_handler y) (o_mid p) = AAccept ->
    filter (stored_ev (o_mid p)) (x_events oy ++ x_events oy') = [EvProcess (o_mid p) (pm_data p) true] /\
    length (filter (sent_ev (o_mid p)) (x_events ox ++ x_events ox')) = 1%nat.
Proof.
  intros Hrole Hhs Sx Sy Hcut ox oy x' y' Hc ox' oy' p Hp Ha.
  split.
  2:{ apply (proj1 (convergence_sent_exactly_once x y in_x in_y in_x' in_y' Hrole Hhs Sx Sy Hcut Hc) p Hp). congruence. }
  destruct (convergence_sym x y in_x in_y in_x' in_y' Hrole Hhs Sx Sy Hcut Hc) as (_&_&C1&_).
  pose proof (proj1 (convergence_delivered x y in_x in_y in_x' in_y' Hrole Hhs Sx Sy Hcut Hc) p Hp Ha) as Hin.
  destruct (conv_not_duplicated x y ox oy ox' oy' p (C1 p Hp)) as [D1 D2].
  destruct (roles_swap x y Hrole Hhs) as [Hrole' Hhs'].
  pose proof (stored_le_proc _ _ (processed_at_most_once y x in_y in_x Hrole' Hhs' Sy Sx (cut_session_sym _ _ _ _ Hcut) (o_mid p))) as L1.
  pose proof (stored_le_proc _ _ D2) as L2.
  subst ox' oy' x' y' ox oy.
  apply cnt_one; [|exact Hin|cbn [stored_ev]; apply beq_bytes_refl].
  unfold cnt. rewrite filter_app, app_length.
  destruct (stored_in (x_events (exchange y in_y)) (o_mid p)) eqn:Es.
  - rewrite <- (filter_filter_imp (proc (o_mid p)) (stored_ev (o_mid p)) (x_events (exchange (next_cfg y (exchange y in_y)) in_y'))) by apply stored_ev_proc.
    rewrite (D1 eq_refl). cbn [filter length]. unfold stored_in in Es. apply existsb_filter_pos in Es. lia.
  - unfold stored_in in Es. pose proof Es as Es'. apply existsb_filter_nil in Es'. rewrite Es'. cbn [length].
    apply in_app_or in Hin. destruct Hin as [Hin|Hin].
    + exfalso. assert (K : stored_in (x_events (exchange y in_y)) (o_mid p) = true) by (apply stored_in_true; eexists; exact Hin).
      unfold stored_in in K. congruence.
    + assert (K : (1 <= length (filter (stored_ev (o_mid p)) (x_events (exchange (next_cfg y (exchange y in_y)) in_y'))))%nat).
      { apply existsb_filter_pos. apply existsb_exists. eexists. split; [exact Hin|]. cbn [stored_ev]. apply beq_bytes_refl. }
      lia.
Qed.

Example convergence_exactly_once_dx (in_a : bytes) (k : nat) (in_a' in_b' : bytes) :
  let oa := exchange dx_a in_a in let ob := exchange dx_b (firstn k (x_wire oa)) in
  in_a = firstn (length in_a) (x_wire ob) ->
  let a' := next_cfg dx_a oa in let b' := next_cfg dx_b ob in
  closed a' b' in_a' in_b' ->
  let oa' := exchange a' in_a' in let ob' := exchange b' in_b' in
  forall p, In p (h_outbox (c_handler dx_a)) -> policy_of (c_handler dx_b) (o_mid p) = AAccept ->
    filter (stored_ev (o_mid p)) (x_events ob ++ x_events ob') = [EvProcess (o_mid p) (pm_data p) true] /\
    length (filter (sent_ev (o_mid p)) (x_events oa ++ x_events oa')) = 1%nat.
Proof.
  intros oa ob Hin a' b' Hc oa' ob'. destruct dx_hypotheses as (H1&H2&H3&H4).
  exact (convergence_exactly_once dx_a dx_b in_a (firstn k (x_wire oa)) in_a' in_b' H1
           (hs_check_sound _ _ H2) (sound_check_sound _ H3) (sound_check_sound _ H4)
           (safety_shape_cut_session dx_a dx_b in_a k Hin) Hc).
Qed.

Print Assumptions processed_at_most_once.
Print Assumptions convergence_exactly_once.
Print Assumptions convergence_exactly_once_dx.
Print Assumptions reported_at_most_once.
Print Assumptions sent_at_most_once.
Print Assumptions convergence_sent_exactly_once.
Print Assumptions reported_at_most_once_dx.
Print Assumptions convergence_sent_exactly_once_dx.
Print Assumptions reported_twice_without_nodup.
