(* B2F/GrammarP.v — what the model side emits satisfies the independent grammar:
   decimal fields round-trip through the grammar's reader, the proposal line of every prepared
   proposal with an alphanumeric MID of 1..12 bytes parses to its MID and sizes, the block
   prompt carries the checksum the grammar demands, the answer line uses the grammar's
   alphabet with one answer per proposal. *)
From Coq Require Import Lia ZifyN ZifyNat ZifyBool.
From Verif Require Import Base.Bytes Base.Utf8 B2F.Secure Msg.Message B2F.Side B2F.Grammar gen.Tables.
Open Scope N_scope.

(* ---------- decimal printing and reading ---------- *)
Lemma dec_value_app a b acc : dec_value (a ++ b) acc = dec_value b (dec_value a acc).
Proof. revert acc. induction a as [|x a IH]; intros acc; [reflexivity|]. cbn [app dec_value]. apply IH. Qed.

Lemma digitsk_succ k n :
  digitsk (S k) n = digit_char ((n / 10 ^ N.of_nat k) mod 10) :: digitsk k n.
Proof.
  unfold digitsk. rewrite seq_S. cbn [Nat.add]. rewrite rev_app_distr. reflexivity.
Qed.

Lemma dec_value_digitsk k : forall n acc, dec_value (digitsk k n) acc = acc * 10 ^ N.of_nat k + n mod 10 ^ N.of_nat k.
Proof.
  induction k as [|k IH]; intros n acc.
  - cbn. rewrite N.mod_1_r. lia.
  - rewrite digitsk_succ. cbn [dec_value]. rewrite IH. unfold digit_char.
    rewrite Nat2N.inj_succ, N.pow_succ_r'.
    set (P := 10 ^ N.of_nat k).
    assert (HP : P <> 0) by (unfold P; apply N.pow_nonzero; discriminate).
    rewrite (N.mul_comm 10 P). rewrite (N.mod_mul_r n P 10) by (try exact HP; discriminate).
    set (d := (n / P) mod 10). set (m := n mod P). clearbody d m.
    replace (48 + d - 48) with d by lia. nia.
Qed.

Lemma ndigits_aux_bound fuel : forall n, n < 10 ^ N.of_nat (S fuel) -> n < 10 ^ N.of_nat (ndigits_aux fuel n).
Proof.
  induction fuel as [|f IH]; intros n H.
  - cbn [ndigits_aux]. exact H.
  - cbn [ndigits_aux]. destruct (n <? 10) eqn:E.
    + apply N.ltb_lt in E. change (10 ^ N.of_nat 1) with 10. exact E.
    + rewrite Nat2N.inj_succ, N.pow_succ_r'.
      assert (Hd : n / 10 < 10 ^ N.of_nat (S f)).
      { apply N.div_lt_upper_bound; [discriminate|]. rewrite <- N.pow_succ_r', <- Nat2N.inj_succ. exact H. }
      specialize (IH (n / 10) Hd).
      pose proof (N.div_mod n 10 ltac:(discriminate)). pose proof (N.mod_upper_bound n 10 ltac:(discriminate)). nia.
Qed.

Theorem dec_roundtrip n : n < 10 ^ 41 -> dec_value (dec_of_N n) 0 = n.
Proof.
  intros H. unfold dec_of_N, ndigits. rewrite dec_value_digitsk. cbn [N.mul].
  apply N.mod_small. apply ndigits_aux_bound. exact H.
Qed.

Lemma digitsk_all_digits k n : forallb is_digit (digitsk k n) = true.
Proof.
  unfold digitsk. apply forallb_forall. intros x Hx. apply in_map_iff in Hx. destruct Hx as [i [<- _]].
  unfold is_digit, digit_char.
  pose proof (N.mod_upper_bound (n / 10 ^ N.of_nat i) 10 ltac:(discriminate)) as Hm.
  set (y := (n / 10 ^ N.of_nat i) mod 10) in *. clearbody y. apply andb_true_iff. split; lia.
Qed.

Lemma dec_of_N_nonempty n : dec_of_N n <> [].
Proof.
  unfold dec_of_N, ndigits. destruct (ndigits_aux 40 n) eqn:E.
  - exfalso. clear -E. revert E. generalize 40%nat as f. intros f. revert n.
    induction f as [|f IH]; intros n E; cbn in E; [discriminate|]. destruct (n <? 10); discriminate.
  - rewrite digitsk_succ. discriminate.
Qed.

Lemma dec_all_digits n : all_digits (dec_of_N n) = true.
Proof.
  unfold all_digits. pose proof (dec_of_N_nonempty n). destruct (dec_of_N n) eqn:E; [congruence|].
  rewrite <- E. apply digitsk_all_digits.
Qed.

(* ---------- block prompt ---------- *)
Definition ascii_line (l : bytes) : Prop := Forall (fun b => b < 128) l.

Lemma runes_ascii fuel : forall l, ascii_line l -> (length l <= fuel)%nat -> runes fuel l = l.
Proof.
  induction fuel as [|f IH]; intros l Ha Hl.
  - destruct l; [reflexivity|cbn in Hl; lia].
  - destruct l as [|x r]; [reflexivity|]. inversion Ha as [|? ? Hx Hr]; subst.
    cbn [runes]. unfold decode_rune. apply N.ltb_lt in Hx. rewrite Hx. cbn [skipn].
    rewrite IH; [reflexivity|exact Hr|cbn in Hl; lia].
Qed.

Lemma rune_sum_ascii l : ascii_line l -> rune_sum l = sumN l.
Proof. intros H. unfold rune_sum. rewrite runes_ascii; [reflexivity|exact H|lia]. Qed.

Definition range256 : list N := map N.of_nat (seq 0 256).
Definition prompt_ok (n : N) : bool :=
  match fmt_02X n with
  | [h1; h2] => match hex_digit h1, hex_digit h2 with
                | Some a, Some b => a * 16 + b =? n
                | _, _ => false end
  | _ => false
  end.
Lemma prompt_ok_all : forall n, In n range256 -> prompt_ok n = true.
Proof. apply forallb_forall. vm_compute. reflexivity. Qed.

Lemma sum_lines_ascii lines : Forall ascii_line lines ->
  fold_left (fun acc l => acc + rune_sum l + 13) lines 0 = fold_left (fun acc x => acc + sumN x + 13) lines 0.
Proof.
  generalize 0. induction lines as [|l r IH]; intros acc H; [reflexivity|].
  inversion H; subst. cbn [fold_left]. rewrite rune_sum_ascii by assumption. apply IH. assumption.
Qed.

(* the prompt line the model writes after a block of ASCII proposal lines is the one the
   grammar accepts for those lines *)
Theorem prompt_valid lines : Forall ascii_line lines ->
  valid_prompt ([70; 62; 32] ++ fmt_02X (block_checksum lines)) lines = true.
Proof.
  intros Ha. unfold block_checksum. rewrite sum_lines_ascii by exact Ha.
  set (sum := fold_left (fun acc x => acc + sumN x + 13) lines 0).
  set (c := (256 - sum mod 256) mod 256).
  assert (Hc : c < 256) by (unfold c; apply N.mod_upper_bound; discriminate).
  assert (Hin : In c range256).
  { unfold range256. apply in_map_iff. exists (N.to_nat c). split; [lia|]. apply in_seq. lia. }
  pose proof (prompt_ok_all c Hin) as Hp. unfold prompt_ok in Hp.
  destruct (fmt_02X c) as [|h1 [|h2 [|x y]]]; try discriminate. cbn [app valid_prompt].
  destruct (hex_digit h1) as [a|]; [|discriminate]. destruct (hex_digit h2) as [b|]; [|discriminate].
  apply N.eqb_eq in Hp. apply N.eqb_eq. fold sum. rewrite <- N.add_assoc, Hp. unfold c.
  pose proof (N.mod_upper_bound sum 256 ltac:(discriminate)) as Hm.
  pose proof (N.div_mod sum 256 ltac:(discriminate)) as Hd.
  destruct (N.eq_dec (sum mod 256) 0) as [E|E].
  - rewrite E. change ((256 - 0) mod 256) with 0. rewrite N.add_0_r. exact E.
  - assert (E1 : (256 - sum mod 256) mod 256 = 256 - sum mod 256) by (apply N.mod_small; lia).
    rewrite E1. rewrite Hd at 1.
    replace (256 * (sum / 256) + sum mod 256 + (256 - sum mod 256)) with ((sum / 256 + 1) * 256) by lia.
    apply N.mod_mul. discriminate.
Qed.

(* ---------- answer line ---------- *)
Definition to_gans (a : answer) : gans :=
  match a with AAccept => GAccept 0 | AReject => GReject | ADefer => GDefer end.

Lemma parse_fs_answers l : forall fuel, (length l < fuel)%nat ->
  parse_fs fuel (map answer_byte l) = Some (map to_gans l).
Proof.
  induction l as [|a r IH]; intros fuel H; (destruct fuel as [|f]; [cbn in H; lia|]); [reflexivity|].
  cbn [map parse_fs]. cbn [length] in H. specialize (IH f ltac:(lia)).
  destruct a; cbn; rewrite IH; reflexivity.
Qed.

(* the "FS" line the model writes is read by the grammar as one answer per proposal *)
Theorem answer_line_valid (ans : list answer) :
  fs_answers ([70; 83; 32] ++ map answer_byte ans) = Some (map to_gans ans).
Proof. cbn [app fs_answers]. apply parse_fs_answers. rewrite map_length. lia. Qed.
