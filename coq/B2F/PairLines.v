(* B2F/PairLines.v -- inverse lemmas for the two-party development: what one side writes, the
   other side parses.  Proposal block written by handle_outbound -> inbound_loop; answer line
   written by inbound_loop -> read_reply / parse_answers. *)
From Coq Require Import List NArith ZArith Bool Lia ZifyN ZifyNat ZifyBool.
From Verif Require Import Base.Bytes Base.BytesP Base.Utf8 gen.Tables Lzhuf.Dec Msg.Message B2F.Secure B2F.Side B2F.SideP
  B2F.TermP B2F.CodecP B2F.CutP B2F.GrammarP B2F.PairDefs.
Import ListNotations.
Open Scope N_scope.

(* ---------- reading up to the first CR ---------- *)
Lemma split_at_notin c l rest : ~ In c l -> split_at c (l ++ c :: rest) = (l, Some rest).
Proof.
  induction l as [|x l IH]; intros H; cbn [app split_at].
  - rewrite N.eqb_refl. reflexivity.
  - assert (E : (x =? c) = false) by (apply N.eqb_neq; intros ->; apply H; left; reflexivity).
    rewrite E, IH; [reflexivity|]. intros Hi; apply H; right; exact Hi.
Qed.

Lemma read_until_notin c l rest : ~ In c l -> read_until c (l ++ c :: rest) = Some (l, rest).
Proof. intros H. unfold read_until. rewrite split_at_notin by exact H. reflexivity. Qed.

(* ---------- clean_string leaves a line alone ---------- *)
(* an ASCII byte that is neither white space nor NUL *)
Definition okb (b : N) : bool := (b <? 128) && negb (is_space_rune b) && negb (b =? 0).
Definition ends_with (y : N) (l : bytes) : Prop := exists m, l = m ++ [y].

Lemma ends_with_app y a b : ends_with y b -> ends_with y (a ++ b).
Proof. intros [m ->]. exists (a ++ m). apply app_assoc. Qed.
Lemma ends_with_cons y x b : ends_with y b -> ends_with y (x :: b).
Proof. intros [m ->]. exists (x :: m). reflexivity. Qed.
Lemma ends_with_one y : ends_with y [y].
Proof. exists []. reflexivity. Qed.

Lemma rev'_involutive {A} (l : list A) : rev' (rev' l) = l.
Proof. rewrite !rev'_rev. apply rev_involutive. Qed.

Lemma trim_space_id x m y : okb x = true -> okb y = true -> ends_with y (x :: m) ->
  trim_space (x :: m) = x :: m.
Proof.
  intros Hx Hy [m0 E]. unfold okb in Hx, Hy.
  apply andb_true_iff in Hx. destruct Hx as [Hx _]. apply andb_true_iff in Hx. destruct Hx as [Hx1 Hx2].
  apply andb_true_iff in Hy. destruct Hy as [Hy _]. apply andb_true_iff in Hy. destruct Hy as [Hy1 Hy2].
  apply negb_true_iff in Hx2, Hy2.
  unfold trim_space, trim_space_go.
  assert (L : trim_left_space (length (x :: m)) (x :: m) = x :: m).
  { cbn [length trim_left_space]. unfold decode_rune. rewrite Hx1, Hx2. reflexivity. }
  rewrite L. rewrite (rev'_rev (x :: m)). rewrite E at 2. rewrite rev_app_distr. cbn [rev app].
  cbn [length trim_right_space_rev]. unfold decode_last_rune. rewrite Hy1, Hy2.
  rewrite rev'_rev. cbn [rev]. rewrite rev_involutive. symmetry. exact E.
Qed.

Lemma clean_string_id x m y : okb x = true -> okb y = true -> ends_with y (x :: m) ->
  clean_string (x :: m) = x :: m.
Proof.
  intros Hx Hy He. unfold clean_string. rewrite (trim_space_id x m y Hx Hy He).
  unfold okb in Hx, Hy.
  apply andb_true_iff in Hx. destruct Hx as [_ Hx]. apply negb_true_iff in Hx.
  apply andb_true_iff in Hy. destruct Hy as [_ Hy]. apply negb_true_iff in Hy.
  rewrite Hx. destruct He as [m0 E]. rewrite rev'_rev. rewrite E at 1. rewrite rev_app_distr. cbn [rev app].
  destruct y as [|py]; [discriminate|]. reflexivity.
Qed.

(* ---------- next_line on a clean line ---------- *)
Lemma next_line_gen pe s l rest : ~ In 13 l -> clean_string l = l -> err_line l = false ->
  s_in s = l ++ 13 :: rest -> next_line pe s = ROk (l, set_in s rest).
Proof.
  intros Hn Hc He Hs. unfold next_line. rewrite Hs, read_until_notin by exact Hn.
  cbv zeta. rewrite Hc, He, andb_false_r. reflexivity.
Qed.

(* a line that starts with 'F', ends with a clean ASCII byte and contains no CR *)
Definition fline (l : bytes) : Prop := ~ In 13 l /\ exists m y, l = 70 :: m /\ ends_with y l /\ okb y = true.

Lemma fline_clean l : fline l -> clean_string l = l.
Proof. intros [_ [m [y [-> [He Hy]]]]]. apply (clean_string_id 70 m y); [reflexivity|exact Hy|exact He]. Qed.

Lemma fline_err l : fline l -> err_line l = false.
Proof. intros [_ [m [y [-> _]]]]. reflexivity. Qed.

Lemma next_line_fline pe s l rest : fline l -> s_in s = l ++ 13 :: rest ->
  next_line pe s = ROk (l, set_in s rest).
Proof.
  intros H Hs. apply next_line_gen; [exact (proj1 H)|apply fline_clean; exact H|apply fline_err; exact H|exact Hs].
Qed.

(* ---------- decimal fields ---------- *)
Lemma is_digit_not c x : is_digit x = true -> (c <? 48) || (57 <? c) = true -> x <> c.
Proof. unfold is_digit. intros H1 H2 ->. lia. Qed.

Lemma digits_notin c l : forallb is_digit l = true -> (c <? 48) || (57 <? c) = true -> ~ In c l.
Proof.
  intros H Hc Hi. rewrite forallb_forall in H. specialize (H c Hi). exact (is_digit_not c c H Hc eq_refl).
Qed.

Lemma dec_notin c n : (c <? 48) || (57 <? c) = true -> ~ In c (dec_of_N n).
Proof. apply digits_notin. unfold dec_of_N. apply digitsk_all_digits. Qed.

Lemma num_of_digits_digitsk k : forall n acc,
  num_of_digits (digitsk k n) acc = Some (acc * 10 ^ N.of_nat k + n mod 10 ^ N.of_nat k).
Proof.
  induction k as [|k IH]; intros n acc.
  - cbn. rewrite N.mod_1_r. f_equal. lia.
  - rewrite digitsk_succ. cbn [num_of_digits]. unfold digit_val, digit_char.
    pose proof (N.mod_upper_bound (n / 10 ^ N.of_nat k) 10 ltac:(discriminate)) as Hd.
    rewrite Nat2N.inj_succ, N.pow_succ_r'.
    set (P := 10 ^ N.of_nat k) in *.
    assert (HP : P <> 0) by (unfold P; apply N.pow_nonzero; discriminate).
    rewrite (N.mul_comm 10 P). rewrite (N.mod_mul_r n P 10) by (try exact HP; discriminate).
    set (d := (n / P) mod 10) in *. clearbody d.
    assert (Hg : is_digit (48 + d) = true) by (unfold is_digit; lia).
    rewrite Hg, IH. f_equal. fold P. generalize (n mod P) as m. intros m. clearbody P.
    replace (48 + d - 48) with d by lia. nia.
Qed.

Lemma ndigits_pos n : exists k, ndigits n = S k.
Proof.
  unfold ndigits. generalize 40%nat as f. intros f. destruct f as [|f]; cbn [ndigits_aux]; [exists O; reflexivity|].
  destruct (n <? 10); eexists; reflexivity.
Qed.

Lemma atoi_digit_head c r : is_digit c = true ->
  atoi_ignore_err (c :: r) =
  match num_of_digits (c :: r) 0 with
  | None => 0%Z
  | Some v => if 9223372036854775807 <? v then max_int else Z.of_N v
  end.
Proof.
  intros H. unfold is_digit in H.
  assert (E : c = 48 \/ c = 49 \/ c = 50 \/ c = 51 \/ c = 52 \/ c = 53 \/ c = 54 \/ c = 55 \/ c = 56 \/ c = 57) by lia.
  destruct E as [E|[E|[E|[E|[E|[E|[E|[E|[E|E]]]]]]]]]; subst c; reflexivity.
Qed.

Lemma atoi_dec_of_N n : (Z.of_N n <= 9223372036854775807)%Z -> atoi_ignore_err (dec_of_N n) = Z.of_N n.
Proof.
  intros H. unfold dec_of_N. destruct (ndigits_pos n) as [k Ek].
  assert (Hv : num_of_digits (digitsk (ndigits n) n) 0 = Some n).
  { rewrite num_of_digits_digitsk. cbn [N.mul]. f_equal. rewrite N.add_0_l. apply N.mod_small.
    unfold ndigits. apply ndigits_aux_bound. change (10 ^ N.of_nat 41) with 100000000000000000000000000000000000000000. lia. }
  rewrite Ek in *. rewrite digitsk_succ in *. rewrite atoi_digit_head.
  - rewrite Hv. assert (E : (9223372036854775807 <? n) = false) by lia. rewrite E. reflexivity.
  - unfold digit_char, is_digit.
    pose proof (N.mod_upper_bound (n / 10 ^ N.of_nat k) 10 ltac:(discriminate)).
    set (d := (n / 10 ^ N.of_nat k) mod 10) in *. clearbody d. lia.
Qed.

(* ---------- the proposal line ---------- *)
Lemma proposal_line_eq p :
  proposal_line p = 70 :: 67 :: 32 :: 69 :: 77 :: 32 :: o_mid p ++ 32 :: dec_of_N (o_size p) ++ 32 ::
                    dec_of_N (N.of_nat (length (o_cdata p))) ++ [32; 48].
Proof. reflexivity. Qed.

Lemma proposal_line_fline p : mid_ok (o_mid p) -> fline (proposal_line p).
Proof.
  intros [Hm _]. rewrite proposal_line_eq. split.
  - intros Hi. cbn [In] in Hi.
    repeat (destruct Hi as [Hi|Hi]; [discriminate|]).
    apply in_app_iff in Hi. destruct Hi as [Hi|Hi]; [exact (Hm Hi)|].
    destruct Hi as [Hi|Hi]; [discriminate|].
    apply in_app_iff in Hi. destruct Hi as [Hi|Hi]; [revert Hi; apply dec_notin; reflexivity|].
    destruct Hi as [Hi|Hi]; [discriminate|].
    apply in_app_iff in Hi. destruct Hi as [Hi|Hi]; [revert Hi; apply dec_notin; reflexivity|].
    cbn [In] in Hi. repeat (destruct Hi as [Hi|Hi]; [discriminate|]). exact Hi.
  - eexists. exists 48. split; [reflexivity|]. split; [|reflexivity].
    do 6 apply ends_with_cons. apply ends_with_app. apply ends_with_cons. apply ends_with_app.
    apply ends_with_cons. apply ends_with_app. apply ends_with_cons. apply ends_with_one.
Qed.

(* ---------- strings.Split on a single byte ---------- *)
Lemma split_on_nonnil c s : split_on c s <> [].
Proof.
  destruct s as [|x r]; cbn [split_on]; [discriminate|].
  destruct (split_on c r); destruct (x =? c); discriminate.
Qed.

Lemma split_on_sep c b : split_on c (c :: b) = [] :: split_on c b.
Proof.
  cbn [split_on]. rewrite N.eqb_refl. pose proof (split_on_nonnil c b). destruct (split_on c b); [congruence|reflexivity].
Qed.

Lemma split_on_other c x b : x <> c ->
  split_on c (x :: b) = match split_on c b with [] => [[x]] | h :: t => (x :: h) :: t end.
Proof. intros H. apply N.eqb_neq in H. cbn [split_on]. rewrite H. reflexivity. Qed.

Lemma split_on_notin c a : ~ In c a -> split_on c a = [a].
Proof.
  induction a as [|x a IH]; intros H; [reflexivity|].
  rewrite split_on_other by (intros ->; apply H; left; reflexivity).
  rewrite IH by (intros Hi; apply H; right; exact Hi). reflexivity.
Qed.

Lemma split_on_app c a b : ~ In c a -> split_on c (a ++ c :: b) = a :: split_on c b.
Proof.
  induction a as [|x a IH]; intros H; cbn [app]; [apply split_on_sep|].
  rewrite split_on_other by (intros ->; apply H; left; reflexivity).
  rewrite IH by (intros Hi; apply H; right; exact Hi). reflexivity.
Qed.

Lemma parse_proposal_line s p : prop_syn p -> parse_proposal s (proposal_line p) = ROk (iprop_of p ADefer).
Proof.
  intros [[_ Hm] [_ Hc]]. rewrite proposal_line_eq.
  set (rest := 69 :: 77 :: 32 :: o_mid p ++ 32 :: dec_of_N (o_size p) ++ 32 ::
                    dec_of_N (N.of_nat (length (o_cdata p))) ++ [32; 48]).
  assert (Hs : split_on 32 rest =
               [[69; 77]; o_mid p; dec_of_N (o_size p); dec_of_N (N.of_nat (length (o_cdata p))); [48]]).
  { unfold rest. change (69 :: 77 :: 32 :: ?x) with ([69; 77] ++ 32 :: x).
    rewrite split_on_app by (cbn [In]; intros [H|[H|H]]; [discriminate|discriminate|exact H]).
    rewrite split_on_app by exact Hm.
    rewrite split_on_app by (apply dec_notin; reflexivity).
    change [32; 48] with (32 :: [48]).
    rewrite split_on_app by (apply dec_notin; reflexivity).
    reflexivity. }
  unfold parse_proposal.
  change (negb (70 =? 70)) with false. cbv iota.
  change ((67 =? BasicProposal) || (67 =? AsciiProposal)) with false.
  change ((67 =? Wl2kProposal) || (67 =? GzipProposal)) with true. cbv iota.
  set (line := 70 :: 67 :: 32 :: rest).
  assert (Hl : (length line <? 4)%nat = false) by (apply Nat.ltb_ge; unfold line, rest; cbn [length]; lia).
  rewrite Hl.
  change (slice_from 3 line) with (if (3 <=? length line)%nat then Some rest else None).
  assert (Hl2 : (3 <=? length line)%nat = true) by (apply Nat.leb_le; unfold line; cbn [length]; lia).
  rewrite Hl2, Hs. change (type_ok [69; 77]) with true. cbv iota.
  unfold iprop_of. f_equal. f_equal.
  rewrite atoi_dec_of_N by lia. lia.
Qed.

(* ---------- the checksum line ---------- *)
Definition ck_line (n : N) : bytes := [70; 62; 32] ++ fmt_02X n.
Definition ck_line_ok (n : N) : bool :=
  beq_bytes (clean_string (ck_line n)) (ck_line n) && negb (in_list 13 (ck_line n)) &&
  Z.eqb (parse_hex_ignore_err (trim_space (32 :: fmt_02X n))) (Z.of_N n).

Lemma ck_line_ok_all : forall n, In n CodecP.range256 -> ck_line_ok n = true.
Proof. apply forallb_forall. vm_compute. reflexivity. Qed.

Lemma in_list_false c l : in_list c l = false -> ~ In c l.
Proof.
  unfold in_list. intros H Hi. assert (E : existsb (fun y => y =? c) l = true).
  { apply existsb_exists. exists c. split; [exact Hi|apply N.eqb_refl]. }
  congruence.
Qed.

Lemma ck_line_facts n : n < 256 ->
  clean_string (ck_line n) = ck_line n /\ ~ In 13 (ck_line n) /\
  parse_hex_ignore_err (trim_space (32 :: fmt_02X n)) = Z.of_N n.
Proof.
  intros H. assert (Hin : In n CodecP.range256).
  { unfold CodecP.range256. apply in_map_iff. exists (N.to_nat n). split; [lia|]. apply in_seq. lia. }
  pose proof (ck_line_ok_all n Hin) as Hk. unfold ck_line_ok in Hk.
  apply andb_true_iff in Hk. destruct Hk as [Hk H3]. apply andb_true_iff in Hk. destruct Hk as [H1 H2].
  split; [apply beq_bytes_true; exact H1|]. split; [apply in_list_false, negb_true_iff; exact H2|].
  apply Z.eqb_eq. exact H3.
Qed.

Lemma next_line_ck pe s n rest : n < 256 -> s_in s = ck_line n ++ 13 :: rest ->
  next_line pe s = ROk (ck_line n, set_in s rest).
Proof.
  intros H Hs. destruct (ck_line_facts n H) as [H1 [H2 _]].
  apply next_line_gen; [exact H2|exact H1|reflexivity|exact Hs].
Qed.

(* ---------- the answer line ---------- *)
Lemma answer_line_fline answers : answers <> [] -> fline ([70; 83; 32] ++ map answer_byte answers).
Proof.
  intros Hne. split.
  - cbn [app In]. intros Hi. repeat (destruct Hi as [Hi|Hi]; [discriminate|]).
    apply in_map_iff in Hi. destruct Hi as [a [Ha _]]. destruct a; discriminate.
  - destruct (exists_last Hne) as [l [a ->]].
    eexists. exists (answer_byte a). split; [reflexivity|]. split; [|destruct a; reflexivity].
    apply ends_with_app. rewrite map_app. apply ends_with_app. apply ends_with_one.
Qed.

(* ---------- one line of the peer's turn ---------- *)
Lemma length2_ltb {A} (a b : A) l : (length (a :: b :: l) <? 2)%nat = false.
Proof. apply Nat.ltb_ge. cbn [length]. lia. Qed.

Lemma il_line_proposal s1 props lines p : prop_syn p ->
  il_line s1 props lines (proposal_line p) = IlCont (iprop_of p ADefer :: props) (proposal_line p :: lines).
Proof.
  intros H. unfold il_line. rewrite (parse_proposal_line s1 p H). rewrite proposal_line_eq.
  set (r := o_mid p ++ _). 
  change (prefixb str_PM (70 :: 67 :: 32 :: 69 :: 77 :: 32 :: r)) with false. cbv iota.
  change (70 =? 59) with false. cbv iota.
  rewrite length2_ltb. change (false || negb (70 =? 70)) with false. cbv iota.
  change (in_list 67 [65; 66; 67; 68]) with true. cbv iota. reflexivity.
Qed.

Lemma il_line_ck s1 props lines n : n < 256 ->
  il_line s1 props lines (ck_line n) =
  if negb (Z.of_N (block_checksum (rev' lines)) =? Z.of_N n)%Z then IlDone (RFail EOther s1)
  else match props with
       | [] => IlDone (ROk (false, [], set_nomsgs s1 true))
       | _ => let '(s2, answered) := answer_props (set_nomsgs s1 false) (rev' props) [] [] in
              IlDone (ROk (false, answered,
                           wr s2 ([70; 83; 32] ++ map (fun p => answer_byte (i_answer p)) answered ++ [13])))
       end.
Proof.
  intros H. destruct (ck_line_facts n H) as [_ [_ Hp]].
  unfold il_line, ck_line. cbn [app]. set (r := fmt_02X n) in *.
  change (prefixb str_PM (70 :: 62 :: 32 :: r)) with false. cbv iota.
  change (70 =? 59) with false. cbv iota.
  rewrite length2_ltb. change (false || negb (70 =? 70)) with false. cbv iota.
  change (in_list 62 [65; 66; 67; 68]) with false. cbv iota.
  change (62 =? 70) with false. change (62 =? 81) with false. change (62 =? 62) with true. cbv iota.
  change (slice_from 2 (70 :: 62 :: 32 :: r)) with (Some (32 :: r)). cbv iota zeta beta.
  rewrite Hp. reflexivity.
Qed.

(* ---------- the whole block ---------- *)
Definition block_lines (block : list oprop) : bytes :=
  concat (map (fun l => l ++ [13]) (map proposal_line block)).

Lemma set_in_set_in s a b : set_in (set_in s a) b = set_in s b.
Proof. reflexivity. Qed.

Lemma inbound_block_gen : forall todo done s rest f,
  Forall prop_syn todo -> done ++ todo <> [] ->
  s_in s = block_lines todo ++ ck_line (block_checksum (map proposal_line (done ++ todo))) ++ 13 :: rest ->
  (length todo < f)%nat ->
  inbound_loop f s (rev (map (fun p => iprop_of p ADefer) done)) (rev (map proposal_line done)) =
    let '(s2, answered) := answer_props (set_nomsgs (set_in s rest) false)
                             (map (fun p => iprop_of p ADefer) (done ++ todo)) [] [] in
    ROk (false, answered, wr s2 ([70; 83; 32] ++ map (fun p => answer_byte (i_answer p)) answered ++ [13])).
Proof.
  induction todo as [|p todo IH]; intros done s rest f Hsyn Hne Hs Hf; (destruct f as [|f]; [cbn [length] in Hf; lia|]).
  - rewrite app_nil_r in *. cbn [block_lines map concat app] in Hs.
    rewrite inbound_loop_eq.
    rewrite (next_line_ck true s _ rest (block_checksum_lt _) Hs).
    rewrite il_line_ck by apply block_checksum_lt.
    rewrite rev'_rev, rev_involutive, Z.eqb_refl. cbn [negb].
    rewrite rev'_rev, rev_involutive.
    destruct (rev (map (fun p => iprop_of p ADefer) done)) as [|x l] eqn:E.
    + exfalso. apply (f_equal (@length _)) in E. rewrite rev_length, map_length in E.
      destruct done; [congruence|discriminate].
    + destruct (answer_props (set_nomsgs (set_in s rest) false) (map (fun p => iprop_of p ADefer) done) [] []) as [s2 answered].
      reflexivity.
  - inversion Hsyn as [|? ? Hp Hsyn']; subst.
    unfold block_lines in Hs. cbn [map concat] in Hs. fold (block_lines todo) in Hs.
    rewrite <- !app_assoc in Hs. cbn [app] in Hs.
    rewrite inbound_loop_eq.
    rewrite (next_line_fline true s (proposal_line p) _ (proposal_line_fline p (proj1 Hp)) Hs).
    rewrite il_line_proposal by exact Hp.
    specialize (IH (done ++ [p]) (set_in s (block_lines todo ++
                     ck_line (block_checksum (map proposal_line (done ++ p :: todo))) ++ 13 :: rest)) rest f Hsyn').
    rewrite <- app_assoc in IH. cbn [app] in IH.
    rewrite !map_app, !rev_app_distr in IH. cbn [map rev app] in IH.
    rewrite set_in_set_in in IH. rewrite !map_app. cbn [map]. apply IH.
    + exact Hne.
    + reflexivity.
    + cbn [length] in Hf. lia.
Qed.

Lemma block_lines_length block : (length block <= length (block_lines block))%nat.
Proof.
  unfold block_lines. induction block as [|p r IH]; cbn [map concat length]; [lia|].
  rewrite !app_length. cbn [length]. lia.
Qed.

Lemma inbound_block block s rest f :
  block <> [] -> Forall prop_syn block -> s_in s = proposal_bytes block ++ rest -> (length (s_in s) < f)%nat ->
  inbound_loop f s [] [] =
    let '(s2, answered) := answer_props (set_nomsgs (set_in s rest) false) (map (fun p => iprop_of p ADefer) block) [] [] in
    ROk (false, answered, wr s2 ([70; 83; 32] ++ map (fun p => answer_byte (i_answer p)) answered ++ [13])).
Proof.
  intros Hne Hsyn Hs Hf.
  assert (Hs' : s_in s = block_lines block ++ ck_line (block_checksum (map proposal_line ([] ++ block))) ++ 13 :: rest).
  { rewrite Hs. unfold proposal_bytes, block_lines, ck_line. cbv zeta. rewrite <- !app_assoc. reflexivity. }
  apply (inbound_block_gen block [] s rest f Hsyn Hne Hs').
  rewrite Hs' in Hf. rewrite app_length in Hf. pose proof (block_lines_length block). lia.
Qed.

(* ---------- the answers are one per proposal, in order ---------- *)
Lemma answer_props_zip_gen : forall block s seen acc, exists answers, length answers = length block /\
  snd (answer_props s (map (fun p => iprop_of p ADefer) block) seen acc) = rev' acc ++ zip_props block answers.
Proof.
  induction block as [|p r IH]; intros s seen acc.
  - exists []. split; [reflexivity|]. cbn [map answer_props snd zip_props combine]. rewrite app_nil_r. reflexivity.
  - cbn [map answer_props].
    match goal with |- context [if ?c then _ else _] => destruct c end.
    + destruct (IH s (i_mid (iprop_of p ADefer) :: seen) (with_answer (iprop_of p ADefer) ADefer :: acc)) as [ans [Hl He]].
      exists (ADefer :: ans). split; [cbn [length]; lia|]. rewrite He.
      rewrite !rev'_rev. cbn [rev]. rewrite <- app_assoc. reflexivity.
    + set (a := policy_of (s_h s) (i_mid (iprop_of p ADefer))).
      destruct (IH (ev s (EvAnswer (i_mid (iprop_of p ADefer)) a)) (i_mid (iprop_of p ADefer) :: seen)
                   (with_answer (iprop_of p ADefer) a :: acc)) as [ans [Hl He]].
      exists (a :: ans). split; [cbn [length]; lia|]. rewrite He.
      rewrite !rev'_rev. cbn [rev]. rewrite <- app_assoc. reflexivity.
Qed.

Lemma answer_props_zip block s :
  exists answers, length answers = length block /\
    snd (answer_props s (map (fun p => iprop_of p ADefer) block) [] []) = zip_props block answers.
Proof. exact (answer_props_zip_gen block s [] []). Qed.

(* ---------- the sender reads the answer line ---------- *)
Lemma read_reply_fs answers s rest f :
  answers <> [] -> s_in s = fs_line answers ++ rest -> (length (s_in s) < f)%nat ->
  read_reply f s = ROk ([70; 83; 32] ++ map answer_byte answers, set_in s rest).
Proof.
  intros Hne Hs Hf. destruct f as [|f]; [lia|]. cbn [read_reply].
  assert (Hs' : s_in s = ([70; 83; 32] ++ map answer_byte answers) ++ 13 :: rest).
  { rewrite Hs. unfold fs_line. rewrite <- !app_assoc. reflexivity. }
  rewrite (next_line_fline true s _ rest (answer_line_fline answers Hne) Hs'). reflexivity.
Qed.

Lemma parse_answers_bytes answers : forall f n acc, (length answers < f)%nat -> (length answers <= n)%nat ->
  parse_answers f (map answer_byte answers) n acc = Some (rev' acc ++ map (fun a => PAns a 0%Z) answers).
Proof.
  induction answers as [|a r IH]; intros f n acc Hf Hn; (destruct f as [|f]; [cbn [length] in Hf; lia|]).
  - cbn [map parse_answers]. rewrite app_nil_r. reflexivity.
  - destruct n as [|n]; [cbn [length] in Hn; lia|]. cbn [length] in Hf, Hn.
    cbn [map parse_answers].
    destruct a;
      [change (in_list (answer_byte AAccept) [89; 121; 43]) with true
      |change (in_list (answer_byte AReject) [89; 121; 43]) with false;
       change (in_list (answer_byte AReject) [78; 110; 82; 114; 45]) with true
      |change (in_list (answer_byte ADefer) [89; 121; 43]) with false;
       change (in_list (answer_byte ADefer) [78; 110; 82; 114; 45]) with false;
       change (in_list (answer_byte ADefer) [76; 108; 61; 72; 104]) with true];
      cbv iota; rewrite IH by lia; rewrite !rev'_rev; cbn [rev]; rewrite <- app_assoc; reflexivity.
Qed.

(* ---------- extras ---------- *)
Lemma proposal_bytes_wire block s0 : wire (ho_propose block s0) = wire s0 ++ proposal_bytes block.
Proof.
  unfold wire, ho_propose, proposal_bytes. cbv zeta. cbn [wr s_out].
  rewrite (fold_wr_out (fun l : bytes => l ++ [13])). cbn [rev].
  rewrite rev_app_distr, rev_involutive, !concat_app. cbn [concat]. rewrite app_nil_r, <- app_assoc. reflexivity.
Qed.

Lemma inbound_ff s rest f : s_in s = [70;70;13] ++ rest -> (0 < f)%nat ->
  inbound_loop f s [] [] = ROk (false, [], set_nomsgs (set_in s rest) true).
Proof.
  intros Hs Hf. destruct f as [|f]; [lia|]. rewrite inbound_loop_eq.
  rewrite (next_line_gen true s [70; 70] rest); [reflexivity| |reflexivity|reflexivity|exact Hs].
  cbn [In]. intros [H|[H|H]]; [discriminate|discriminate|exact H].
Qed.

Lemma inbound_fq s rest f : s_in s = [70;81;13] ++ rest -> (0 < f)%nat ->
  inbound_loop f s [] [] = ROk (true, [], set_in s rest).
Proof.
  intros Hs Hf. destruct f as [|f]; [lia|]. rewrite inbound_loop_eq.
  rewrite (next_line_gen true s [70; 81] rest); [reflexivity| |reflexivity|reflexivity|exact Hs].
  cbn [In]. intros [H|[H|H]]; [discriminate|discriminate|exact H].
Qed.

Print Assumptions inbound_block.
Print Assumptions answer_props_zip.
Print Assumptions read_reply_fs.
Print Assumptions parse_answers_bytes.
Print Assumptions proposal_bytes_wire.
Print Assumptions inbound_ff.
Print Assumptions inbound_fq.
