(* B2F/ConvergeManyP.v -- (S3) what a side of a cut session stores was accepted by its policy, and
   (N) SEVERAL faulty sessions followed by a complete one.  See the end of the file for the summary. *)
From Coq Require Import List NArith ZArith Bool Lia ZifyN ZifyNat ZifyBool Sorting.Permutation.
From Verif Require Import Base.Bytes Base.BytesP gen.Tables Lzhuf.Dec Msg.Message B2F.Secure B2F.Side B2F.SideP
  B2F.TermP B2F.CodecP B2F.CutP B2F.PairDefs B2F.PairLines B2F.PairXfer B2F.PairHs B2F.PairP B2F.PairIter B2F.DeliverP
  B2F.ConvergeP B2F.ConvergeCutP B2F.ConvergeOnceP.
Import ListNotations.
Open Scope N_scope.

(* ================================================================================== *)
(* 1. (S3) An answer is "defer" or the policy's                                        *)
(* ================================================================================== *)
Definition ans_ok2 (h : hstate) (p q : iprop) : Prop :=
  i_mid q = i_mid p /\ (i_answer q = ADefer \/ i_answer q = policy_of h (i_mid p)).

Lemma answer_props_ans2 : forall props s seen acc,
  exists L, snd (answer_props s props seen acc) = rev acc ++ L /\ Forall2 (ans_ok2 (s_h s)) props L.
Proof.
  induction props as [|p r IH]; intros s seen acc; cbn [answer_props].
  { exists []. cbn [snd]. rewrite rev'_rev, app_nil_r. split; [reflexivity|constructor]. }
  destruct (mem_bytes (i_mid p) seen || negb ((i_code p =? Wl2kProposal) || (i_code p =? GzipProposal))
            || negb (h_present (s_h s))).
  - destruct (IH s (i_mid p :: seen) (with_answer p ADefer :: acc)) as (L&E&F).
    exists (with_answer p ADefer :: L). split; [rewrite E; cbn [rev]; rewrite <- app_assoc; reflexivity|].
    constructor; [split; [reflexivity|left; reflexivity]|exact F].
  - destruct (IH (ev s (EvAnswer (i_mid p) (policy_of (s_h s) (i_mid p)))) (i_mid p :: seen)
                 (with_answer p (policy_of (s_h s) (i_mid p)) :: acc)) as (L&E&F).
    exists (with_answer p (policy_of (s_h s) (i_mid p)) :: L).
    split; [rewrite E; cbn [rev]; rewrite <- app_assoc; reflexivity|].
    constructor; [split; [reflexivity|right; reflexivity]|exact F].
Qed.

Lemma zip_ans_ok2 h : forall block answers, length answers = length block ->
  Forall2 (ans_ok2 h) (map (fun p => iprop_of p ADefer) block) (zip_props block answers) ->
  forall p a, In (p, a) (combine block answers) -> a = ADefer \/ a = policy_of h (o_mid p).
Proof.
  induction block as [|p0 ps IH]; intros answers Hl HF p a Hin; [destruct Hin|].
  destruct answers as [|a0 r]; [discriminate|]. cbn [length] in Hl. injection Hl as Hl.
  change (zip_props (p0 :: ps) (a0 :: r)) with (iprop_of p0 a0 :: zip_props ps r) in HF. cbn [map] in HF.
  inversion HF as [|? ? ? ? H1 H2]; subst. cbn [combine] in Hin. destruct Hin as [E|Hin].
  - inversion E; subst. destruct H1 as [_ H1]. exact H1.
  - eapply IH; [exact Hl|exact H2|exact Hin].
Qed.

Lemma recv_block_pol2 sy block R :
  block <> [] -> Forall prop_syn block -> prefix (s_in sy) (proposal_bytes block ++ R) ->
  (exists answers sy1, length answers = length block /\
     inbound_loop (S (length (s_in sy))) sy [] [] = ROk (false, zip_props block answers, sy1) /\
     prefix (s_in sy1) R /\ wire sy1 = wire sy ++ fs_line answers /\ s_h sy1 = s_h sy /\
     (forall p a, In (p, a) (combine block answers) -> a = ADefer \/ a = policy_of (s_h sy) (o_mid p)))
  \/ (exists s', inbound_loop (S (length (s_in sy))) sy [] [] = RFail EConnLost s' /\ eqo sy s').
Proof.
  intros Hne Hsyn [i2 Hi].
  pose proof (inbound_block block (ext i2 sy) R (S (length (s_in sy ++ i2))) Hne Hsyn) as Hfull.
  cbn [ext set_in s_in] in Hfull. specialize (Hfull (eq_sym Hi) ltac:(lia)).
  change (set_in sy (s_in sy ++ i2)) with (ext i2 sy) in Hfull.
  set (sR := set_nomsgs (set_in (ext i2 sy) R) false) in *.
  destruct (answer_props_zip block sR) as (answers&Hlen&Hz).
  destruct (answer_props_ans2 (map (fun p => iprop_of p ADefer) block) sR [] []) as (L&EL&FL).
  cbn [rev app] in EL. rewrite Hz in EL. subst L.
  pose proof (answer_props_out (map (fun p => iprop_of p ADefer) block) sR [] []) as [Ho Hh].
  pose proof (answer_props_facts (map (fun p => iprop_of p ADefer) block) sR [] []) as [Hin _].
  destruct (answer_props sR (map (fun p => iprop_of p ADefer) block) [] []) as [sB answered] eqn:Eap.
  cbn [fst snd] in *. subst answered.
  pose proof (inbound_loop_ext i2 (S (length (s_in sy))) (S (length (s_in sy ++ i2))) sy [] []) as Rx.
  unfold inlen in Rx. rewrite app_length in Rx. specialize (Rx ltac:(lia) ltac:(lia)).
  rewrite <- app_length in Rx.
  rewrite Hfull in Rx. apply relx_back in Rx. destruct Rx as [(s1&E1&E2)|(s1&E1)].
  - left. exists answers, s1. split; [exact Hlen|]. split; [exact E1|].
    rewrite (zip_answers _ _ Hlen) in E2.
    split; [|split; [|split]].
    + exists i2. apply (f_equal s_in) in E2. cbn [wr ext set_in s_in] in E2. rewrite <- E2, Hin. reflexivity.
    + apply (f_equal s_out) in E2. cbn [wr ext set_in s_out] in E2. unfold wire. rewrite <- E2, Ho.
      cbn [rev]. rewrite concat_app. cbn [concat]. rewrite app_nil_r. reflexivity.
    + apply (f_equal s_h) in E2. cbn [wr ext set_in s_h] in E2. rewrite <- E2, Hh. reflexivity.
    + exact (zip_ans_ok2 (s_h sy) block answers Hlen FL).
  - right. exists s1. split; [exact E1|]. eapply inbound_loop_lost_eqo; exact E1.
Qed.

Definition turn3 (sx sy : sess) : Prop :=
  exists cx cy,
    (exists B, (forall m, In m B -> ~ In m (gone sx)) /\ (forall m, In m B -> policy_of (s_h sy) m = AAccept) /\
               xs cx sx B /\ ys cy sy B) /\
    after (Pk (hsig sy)) true sx false cx /\ after (Pk (hsig sx)) false sy true cy /\
    link cx cy /\ less cx cy sx sy.

Lemma joint_turn3 sx sy :
  side_ok sx -> Forall prop_wf (hob sx) -> NoDup (map o_mid (hob sx)) ->
  prefix (s_in sx) (tailw false sy) -> prefix (s_in sy) (tailw true sx) -> turn3 sx sy.
Proof.
  intros Hok Hwf Hndx I1 I2. unfold turn3.
  destruct (outbound sx) as [props s0] eqn:Eo.
  pose proof (outbound_step sx) as S0. rewrite Eo in S0. cbn [snd] in S0.
  apply (step_weaken _ (Pk (hsig sy)) _ _ (Pk_GO _)) in S0.
  destruct props as [|p ps].
  - (* nothing to propose: FF or FQ *)
    destruct (outbound_block _ _ _ Eo) as (_&E0&O0&H0&N0).
    assert (Hho : handle_outbound sx = ROk (s_remote_nomsgs s0, wr s0 (if s_remote_nomsgs s0 then [70; 81; 13] else [70; 70; 13])))
      by (rewrite handle_outbound_eq, Eo; reflexivity).
    pose proof (inbound_loop_ext) as Hext.
    destruct (s_remote_nomsgs s0) eqn:Eq.
    + exists None.
      assert (AX : after (Pk (hsig sy)) true sx false None).
      { cbn [after]. rewrite (final_send_quit _ _ Hho). eapply step_trans; [exact S0|apply step_same; reflexivity]. }
      assert (XS : xs None sx []).
      { cbn [xs]. rewrite (final_send_quit _ _ Hho). pose proof (handle_outbound_pn sx) as Hpn. rewrite Hho in Hpn. exact Hpn. }
      assert (Ht : tailw true sx = [70; 81; 13] ++ []).
      { apply tailw_intro. rewrite (final_send_quit _ _ Hho), wire_wr, (wire_out _ _ O0), app_nil_r. reflexivity. }
      rewrite Ht in I2. destruct I2 as [i2 Hi].
      pose proof (inbound_fq (ext i2 sy) [] (S (length (s_in sy ++ i2)))) as Hfull.
      cbn [ext set_in s_in] in Hfull. specialize (Hfull (eq_sym Hi) ltac:(lia)).
      change (set_in sy (s_in sy ++ i2)) with (ext i2 sy) in Hfull.
      specialize (Hext i2 (S (length (s_in sy))) (S (length (s_in sy ++ i2))) sy [] []).
      unfold inlen in Hext. rewrite app_length in Hext. specialize (Hext ltac:(lia) ltac:(lia)).
      rewrite <- app_length in Hext. rewrite Hfull in Hext. apply relx_back in Hext.
      destruct Hext as [(s1&E1&E2)|(s1&E1)].
      * exists None. split; [exists []; split; [intros m []|]; split; [intros m []|]; split; [exact XS|]; cbn [ys];
                              rewrite (final_recv_quit sy [] s1 s1 E1 eq_refl); apply RL_pn, pn_evs; apply (f_equal s_ev) in E2; cbn in E2; symmetry; exact E2|].
        split; [exact AX|]. split; [|split; exact I].
        cbn [after]. rewrite (final_recv_quit sy [] s1 s1 E1 eq_refl).
        apply step_same; [unfold hsig; apply (f_equal s_h) in E2; cbn in E2; rewrite <- E2; reflexivity|].
        apply (f_equal s_ev) in E2. cbn in E2. symmetry. exact E2.
      * exists None. split; [exists []; split; [intros m []|]; split; [intros m []|]; split; [exact XS|]; cbn [ys];
                              rewrite (final_recv_fail _ _ _ E1); cbn [xerr fin_state];
                              apply RL_pn, pn_eqo; eapply inbound_loop_lost_eqo; exact E1|].
        split; [exact AX|]. split; [|split; exact I].
        cbn [after]. rewrite (final_recv_fail _ _ _ E1). cbn [xerr fin_state].
        apply step_eqo. eapply inbound_loop_lost_eqo; exact E1.
    + set (sx' := wr s0 [70; 70; 13]) in *. exists (Some sx').
      assert (AX : after (Pk (hsig sy)) true sx false (Some sx')).
      { cbn [after]. split; [apply (final_send_ok _ _ Hho)|]. eapply step_trans; [exact S0|apply step_same; reflexivity]. }
      assert (XS : xs (Some sx') sx []) by (cbn [xs]; split; [exact Hho|intros m []]).
      assert (Ht : tailw true sx = [70; 70; 13] ++ tailw false sx').
      { apply tailw_intro. rewrite (final_send_ok _ _ Hho), tailw_eq. unfold sx'. rewrite wire_wr, (wire_out _ _ O0), <- app_assoc. reflexivity. }
      rewrite Ht in I2. destruct I2 as [i2 Hi].
      pose proof (inbound_ff (ext i2 sy) (tailw false sx') (S (length (s_in sy ++ i2)))) as Hfull.
      cbn [ext set_in s_in] in Hfull. specialize (Hfull (eq_sym Hi) ltac:(lia)).
      change (set_in sy (s_in sy ++ i2)) with (ext i2 sy) in Hfull.
      specialize (Hext i2 (S (length (s_in sy))) (S (length (s_in sy ++ i2))) sy [] []).
      unfold inlen in Hext. rewrite app_length in Hext. specialize (Hext ltac:(lia) ltac:(lia)).
      rewrite <- app_length in Hext. rewrite Hfull in Hext. apply relx_back in Hext.
      destruct Hext as [(s1&E1&E2)|(s1&E1)].
      * exists (Some s1). split; [exists []; split; [intros m []|]; split; [intros m []|]; split; [exact XS|]; cbn [ys]; split;
                                   [apply (f_equal s_h) in E2; cbn in E2; symmetry; exact E2|];
                                   apply RL_pn, pn_evs; apply (f_equal s_ev) in E2; cbn in E2; symmetry; exact E2|].
        split; [exact AX|].
        assert (Ho : s_out s1 = s_out sy) by (apply (f_equal s_out) in E2; cbn in E2; symmetry; exact E2).
        assert (Hty : tailw false sy = tailw true s1).
        { apply tailw_intro. rewrite (final_recv_ok sy [] s1 s1 E1 eq_refl), tailw_eq, (wire_out _ _ Ho). reflexivity. }
        split; [|split].
        -- cbn [after]. split; [apply (final_recv_ok sy [] s1 s1 E1 eq_refl)|].
           apply step_same; [unfold hsig; apply (f_equal s_h) in E2; cbn in E2; rewrite <- E2; reflexivity|].
           apply (f_equal s_ev) in E2. cbn in E2. symmetry. exact E2.
        -- cbn [link]. split; [unfold sx'; cbn [wr s_in]; rewrite E0, <- Hty; exact I1|].
           exists i2. apply (f_equal s_in) in E2. cbn [ext set_in set_nomsgs s_in] in E2. exact E2.
        -- cbn [less]. pose proof (TermP.inbound_loop_ok _ _ _ _ _ _ _ E1) as L1.
           unfold inlen in *. unfold sx'. cbn [wr s_in]. rewrite E0. lia.
      * exists None. split; [exists []; split; [intros m []|]; split; [intros m []|]; split; [exact XS|]; cbn [ys];
                              rewrite (final_recv_fail _ _ _ E1); cbn [xerr fin_state];
                              apply RL_pn, pn_eqo; eapply inbound_loop_lost_eqo; exact E1|].
        split; [exact AX|]. split; [|split; [|exact I]].
        -- cbn [after]. rewrite (final_recv_fail _ _ _ E1). cbn [xerr fin_state].
           apply step_eqo. eapply inbound_loop_lost_eqo; exact E1.
        -- cbn [link]. assert (Hty : tailw false sy = []).
           { apply tailw_intro. rewrite (final_recv_fail _ _ _ E1). cbn [xerr fin_state].
             rewrite app_nil_r. symmetry. apply wire_eqo. eapply inbound_loop_lost_eqo; exact E1. }
           rewrite Hty in I1. apply prefix_of_nil in I1. unfold sx'. cbn [wr s_in]. rewrite E0, I1. apply prefix_nil.
  - (* a block of proposals *)
    destruct (send_start _ _ _ _ Eo) as (Hbne&Hbin&E2&W2&Hh2&N2&Hstep). pose proof (send_grows _ _ _ _ Eo) as G2.
    destruct (outbound_block_once sx _ s0 (N.to_nat MaxBlockSize) Eo Hndx) as (_&HndB&GbB).
    cbv zeta in *.
    set (block := firstn (N.to_nat MaxBlockSize) (p :: ps)) in *. set (s2 := ho_propose block s0) in *.
    assert (S2 : step (Pk (hsig sy)) sx s2) by (eapply step_trans; [exact S0|apply ho_propose_step]).
    clearbody s2. clearbody block.
    assert (Hsyn : Forall prop_syn block).
    { apply Forall_forall. intros q Hq. apply (proj1 (Forall_forall _ _) Hok). apply Hbin, Hq. }
    destruct (grows_wire _ _ G2) as [T2 HT2].
    assert (HwfB : Forall prop_wf block).
    { apply Forall_forall. intros q Hq. apply (proj1 (Forall_forall _ _) Hwf). apply Hbin, Hq. }
    assert (Ht : tailw true sx = proposal_bytes block ++ T2).
    { apply tailw_intro. rewrite HT2, W2, <- app_assoc. reflexivity. }
    rewrite Ht in I2.
    destruct (recv_block_pol2 sy block T2 Hbne Hsyn I2) as [(answers&sy1&Hlen&Ei&P1&W1&Hh1&HR2)|(s'&Ei&Qi)].
    2:{ (* the receiver has not seen the whole block: it stops, and so does the sender *)
        assert (Hty : tailw false sy = []).
        { apply tailw_intro. rewrite (final_recv_fail _ _ _ Ei). cbn [xerr fin_state].
          rewrite app_nil_r. symmetry. apply wire_eqo. exact Qi. }
        rewrite Hty in I1. apply prefix_of_nil in I1.
        destruct (sender_noreply s2 ltac:(rewrite E2; exact I1)) as (e&s3&Er&Q3).
        rewrite Er in Hstep. exists None, None.
        split; [exists []; split; [intros m []|]; split; [intros m []|]; split; cbn [xs ys];
                [pose proof (handle_outbound_pn sx) as Hpn; rewrite Hstep in Hpn; rewrite (final_send_fail _ _ _ Hstep);
                 eapply pn_trans; [exact Hpn|apply pn_fin]
                |rewrite (final_recv_fail _ _ _ Ei); cbn [xerr fin_state]; apply RL_pn, pn_eqo, Qi]|].
        split; [|split; [|split; exact I]].
        - cbn [after]. rewrite (final_send_fail _ _ _ Hstep).
          eapply step_trans; [exact S2|]. eapply step_trans; [apply step_eqo, Q3|apply step_fin].
        - cbn [after]. rewrite (final_recv_fail _ _ _ Ei). cbn [xerr fin_state]. apply step_eqo, Qi. }
    assert (Hane : answers <> []) by (intros ->; destruct block; [congruence|discriminate]).
    assert (HR : forall p a, In (p, a) (combine block answers) -> a = AReject -> policy_of (s_h sy) (o_mid p) = AReject).
    { intros q a Hq ->. destruct (HR2 q AReject Hq) as [K|K]; [discriminate|symmetry; exact K]. }
    assert (HaB : forall m, In m (accm (sent_of block answers)) -> policy_of (s_h sy) m = AAccept).
    { intros m Km. apply in_accm in Km. destruct (sent_of_accepted _ _ _ Km) as (q&Hq&<-).
      destruct (HR2 q AAccept Hq) as [K|K]; [discriminate|symmetry; exact K]. }
    assert (HgB : forall m, In m (accm (sent_of block answers)) -> ~ In m (gone sx)).
    { intros m Km. apply in_accm in Km. destruct (sent_of_accepted _ _ _ Km) as (q&Hq&<-).
      apply GbB. eapply in_combine_l; exact Hq. }
    destruct (recv_tail_cases _ _ _ Ei) as (T3&HT3&Hcase).
    assert (Hty : tailw false sy = fs_line answers ++ T3).
    { apply tailw_intro. rewrite HT3, W1, <- app_assoc. reflexivity. }
    rewrite Hty, <- E2 in I1.
    assert (HGen : forall e, Pgen block e -> Pk (hsig sx) e) by (intros e; apply Pk_gen; exact Hbin).
    assert (Fin : forall cx Y, after (Pk (hsig sy)) true sx false cx ->
              prefix (s_in sy1) (xfers block answers ++ Y) ->
              match cx with
              | Some sx' => Y = tailw false sx' /\ prefix (s_in sx') T3 /\ (inlen sx' <= inlen sx)%nat
              | None => prefix Y echo
              end ->
              xs cx sx (accm (sent_of block answers)) ->
              turn3 sx sy).
    { intros cx Y AX P1' Hcx XS.
      destruct (finish_turn2 (Pk (hsig sx)) sx sy block answers sy1 T3 Y cx Hlen Hsyn HwfB HndB HGen (Pk_Ans _) Ei Hcase P1' Hcx)
        as (cy&AY&HL&HS&YS).
      exists cx, cy. split; [exists (accm (sent_of block answers)); split; [exact HgB|split; [exact HaB|split; assumption]]|].
      repeat (split; [assumption|]); assumption. }
    destruct (send_reply s2 answers T3 Hane I1) as [(s3&Er&P3&Q3)|(s'&Er&Q3)]; rewrite Er in Hstep.
    2:{ (* the sender does not get the answer: it has written nothing after the block *)
        apply (Fin None []); [| | |cbn [xs]; pose proof (handle_outbound_pn sx) as Hpn; rewrite Hstep in Hpn;
                                   rewrite (final_send_fail _ _ _ Hstep);
                                   eapply pn_trans; [exact Hpn|apply pn_fin]].
        - cbn [after]. rewrite (final_send_fail _ _ _ Hstep).
          eapply step_trans; [exact S2|]. eapply step_trans; [apply step_eqo, Q3|apply step_fin].
        - rewrite (final_send_fail _ _ _ Hstep) in HT2. cbn [xerr fin_state] in HT2.
          rewrite <- (wire_eqo _ _ Q3) in HT2. rewrite <- (app_nil_r (wire s2)) in HT2 at 1.
          apply app_inv_head in HT2. subst T2. apply prefix_of_nil in P1. rewrite P1. apply prefix_nil.
        - apply prefix_nil. }
    destruct (send_transfer_step block answers s3 Hlen Hsyn) as (s4&Etr&W4&I4&S4).
    cbn [app] in Etr, Hstep. rewrite Etr in Hstep.
    assert (WM : forall e, Pmarks (sent_of block answers) e -> Pk (hsig sy) e).
    { intros e [->|[[m ->]|(m&->&Hin)]]; try exact I.
      destruct (sent_of_rejected _ _ _ Hin) as (q&Hq&<-). exact (HR q AReject Hq eq_refl). }
    assert (S4' : step (Pk (hsig sy)) sx s4).
    { eapply step_trans; [exact S2|]. eapply step_trans; [apply step_eqo, Q3|].
      eapply step_weaken; [apply Pk_Def|exact S4]. }
    pose proof (ho_peek_step (sent_of block answers) s4) as Hpk.
    assert (Ws4 : wire s4 = wire s2 ++ xfers block answers) by (rewrite W4, <- (wire_eqo _ _ Q3); reflexivity).
    assert (Kfail : forall e s', ho_peek (sent_of block answers) s4 = RFail e s' ->
              turn3 sx sy).
    { intros e s' Hp. rewrite Hp in Hpk, Hstep. destruct Hpk as [Sp Op].
      destruct (fin_state_wire (xerr e) s') as (Y&HY&HYe).
      apply (Fin None Y); [| | |cbn [xs]; pose proof (handle_outbound_pn sx) as Hpn; rewrite Hstep in Hpn;
                                 rewrite (final_send_fail _ _ _ Hstep);
                                 eapply pn_trans; [exact Hpn|apply pn_fin]].
      - cbn [after]. rewrite (final_send_fail _ _ _ Hstep).
        eapply step_trans; [exact S4'|]. eapply step_trans; [eapply step_weaken; [exact WM|exact Sp]|apply step_fin].
      - rewrite (final_send_fail _ _ _ Hstep), HY, (wire_out _ _ Op), Ws4, <- app_assoc in HT2.
        apply app_inv_head in HT2. subst T2. exact P1.
      - exact HYe. }
    destruct (peek_cases (sent_of block answers) s4) as [[E4 Hp]|[(b&r&Eb&Hb&Hp)|(b&r&e&s'&Eb&Hb1&Hb2&Hp)]].
    + eapply Kfail; exact Hp.
    + rewrite Hp in Hpk, Hstep. destruct Hpk as [Sp Op].
      set (sx' := ev (mark_sent (sent_of block answers) (mark_rej (sent_of block answers) s4)) EvBlockEnd) in *.
      assert (Ein' : s_in sx' = s_in s3) by (unfold sx'; cbn [ev s_in]; rewrite mark_sent_in, mark_rej_in; exact I4).
      apply (Fin (Some sx') (tailw false sx'));
        [| | |cbn [xs]; split; [exact Hstep|]; intros m Km; apply in_accm in Km; unfold sx', gone; cbn [ev s_h];
              apply (mark_sent_gone _ _ _ Km)].
      * cbn [after]. split; [apply (final_send_ok _ _ Hstep)|].
        eapply step_trans; [exact S4'|]. eapply step_weaken; [exact WM|exact Sp].
      * rewrite (final_send_ok _ _ Hstep), tailw_eq, (wire_out _ _ Op), Ws4, <- app_assoc in HT2.
        apply app_inv_head in HT2. subst T2. exact P1.
      * split; [reflexivity|]. split; [rewrite Ein'; exact P3|].
        pose proof (TermP.read_reply_ok _ _ _ _ Er) as L3. unfold inlen in *. rewrite Ein'. rewrite E2 in L3. lia.
    + eapply Kfail; exact Hp.
Qed.

Lemma RL_in B s s' : RL B s s' -> forall m, In m (proc_mids (s_ev s')) -> In m B \/ In m (proc_mids (s_ev s)).
Proof.
  intros (E&V&_&M) m K. rewrite V, proc_mids_app in K. apply in_app_or in K. destruct K as [K|K]; [left; apply M, K|right; exact K].
Qed.
Lemma hsig_pol s s' m : hsig s' = hsig s -> policy_of (s_h s') m = policy_of (s_h s) m.
Proof. intros H. apply (f_equal snd) in H. cbn [hsig snd] in H. rewrite !policy_of_go, H. reflexivity. Qed.

Lemma joint_acc : forall n sx sy,
  (inlen sx + inlen sy < n)%nat -> okside sx -> okside sy ->
  prefix (s_in sx) (tailw false sy) -> prefix (s_in sy) (tailw true sx) ->
  (forall m, In m (proc_mids (s_ev (final true sx))) -> In m (proc_mids (s_ev sx)) \/ policy_of (s_h sx) m = AAccept) /\
  (forall m, In m (proc_mids (s_ev (final false sy))) -> In m (proc_mids (s_ev sy)) \/ policy_of (s_h sy) m = AAccept).
Proof.
  induction n as [|n IH]; intros sx sy Hn Okx Oky I1 I2; [lia|].
  destruct Okx as (Okx&Wx&Ndx).
  destruct (joint_turn3 sx sy Okx Wx Ndx I1 I2) as (cx&cy&(B&HB&HA&XS&YS)&AX&AY&HL&HS).
  assert (RLacc : forall s', RL B sy s' -> forall m, In m (proc_mids (s_ev s')) ->
            In m (proc_mids (s_ev sy)) \/ policy_of (s_h sy) m = AAccept).
  { intros s' HRL m K. destruct (RL_in _ _ _ HRL m K) as [K'|K']; [right; apply HA, K'|left; exact K']. }
  destruct cx as [sx'|], cy as [sy2|]; cbn [after link less xs ys] in AX, AY, HL, HS, XS, YS.
  - destruct AX as [Fx Sx]. destruct AY as [Fy _]. destruct HL as [J1 J2]. destruct XS as [Hho _]. destruct YS as [Hhy HRL].
    pose proof (handle_outbound_pn sx) as Hpn. rewrite Hho in Hpn. cbn [res_pn] in Hpn.
    destruct (IH sy2 sx') as [K1 K2]; try assumption.
    + lia.
    + apply (okside_hob sy); [unfold hob; rewrite Hhy; reflexivity|exact Oky].
    + apply (okside_hob sx); [apply (step_hob _ _ _ Sx)|split; [exact Okx|split; assumption]].
    + rewrite Fx, Fy. split; intros m K.
      * destruct (K2 m K) as [K'|K']; [left; rewrite <- (pn_mids _ _ Hpn); exact K'|right; rewrite <- (hsig_pol _ _ m (proj1 Sx)); exact K'].
      * destruct (K1 m K) as [K'|K']; [apply (RLacc _ HRL), K'|right; rewrite <- Hhy; exact K'].
  - destruct AX as [Fx _]. destruct XS as [Hho _].
    pose proof (handle_outbound_pn sx) as Hpn. rewrite Hho in Hpn. cbn [res_pn] in Hpn.
    split; [|apply RLacc, YS]. intros m K. left.
    rewrite Fx, (pn_mids _ _ (quiet_recv_pn sx' HL)), (pn_mids _ _ Hpn) in K. exact K.
  - destruct AY as [Fy _]. destruct YS as [_ HRL]. split; [intros m K; left; rewrite (pn_mids _ _ XS) in K; exact K|].
    rewrite Fy. apply RLacc. exact (RL_pn_r _ _ _ _ HRL (quiet_send_pn sy2 HL)).
  - split; [intros m K; left; rewrite (pn_mids _ _ XS) in K; exact K|apply RLacc, YS].
Qed.

Lemma in_proc_mids mid d ok E : In (EvProcess mid d ok) E -> In mid (proc_mids E).
Proof.
  intros H. unfold proc_mids. apply in_flat_map. exists (EvProcess mid d ok). split; [exact H|left; reflexivity].
Qed.

(* (S3) in a cut session of two sound library sides, whatever a side hands to its handler (successfully
   or not) has a MID its own policy accepts *)
Theorem stored_only_accepted (a b : side_cfg) (in_a in_b : bytes) :
  c_master a = negb (c_master b) ->
  hs_compat (if c_master a then a else b) (if c_master a then b else a) ->
  side_sound a -> side_sound b ->
  cut_session a b in_a in_b ->
  forall mid d ok, In (EvProcess mid d ok) (x_events (exchange a in_a)) -> policy_of (c_handler a) mid = AAccept.
Proof.
  intros Hrole Hhs SSa SSb [HI HP] mid d0 ok0 He.
  pose proof (side_sound_syn a SSa) as Sa. pose proof (side_sound_syn b SSb) as Sb.
  set (P := in_b) in *.
  assert (K : forall s, (forall m, In m (proc_mids (s_ev s)) -> policy_of (c_handler a) m = AAccept) ->
              x_events (exchange a in_a) = rev (s_ev s) -> policy_of (c_handler a) mid = AAccept).
  { intros s Hs E. rewrite E, <- in_rev in He. apply Hs. exact (in_proc_mids _ _ _ _ He). }
  destruct (h_present (c_handler a) && h_prepare_err (c_handler a)) eqn:Pa.
  { apply (K (init_state a in_a)); [rewrite init_proc; intros m []|].
    unfold exchange. cbv zeta. fold (init_state a in_a). rewrite Pa. apply finish_events. }
  pose proof (handshake_nopanic (init_state a in_a)) as Npa.
  destruct (handshake (init_state a in_a)) as [sa0|ea sa0|] eqn:Ha; [| |congruence].
  2:{ destruct (exchange_fail _ _ _ _ Pa Ha) as [_ EA]. apply (K (fin_state (xerr ea) sa0)); [|exact EA].
      rewrite fin_state_ev, (handshake_fail_ev _ _ _ Ha), init_proc. intros m []. }
  destruct (exchange_ok _ _ _ Pa Ha) as [WA EA].
  apply (K (final (negb (c_master a)) sa0)); [|exact EA]. clear K EA He.
  assert (Ea0 : proc_mids (s_ev sa0) = []) by (rewrite (handshake_ev _ _ Ha); apply init_proc).
  destruct (s_in sa0) as [|b0 r0] eqn:Ein0.
  { destruct (negb (c_master a));
      [rewrite (pn_mids _ _ (quiet_send_pn sa0 ltac:(rewrite Ein0; apply prefix_nil)))
      |rewrite (pn_mids _ _ (quiet_recv_pn sa0 ltac:(rewrite Ein0; apply prefix_nil)))]; rewrite Ea0; intros m []. }
  assert (Hne : s_in sa0 <> []) by (rewrite Ein0; discriminate). clear Ein0.
  rewrite WA in HP.
  destruct (h_present (c_handler b) && h_prepare_err (c_handler b)) eqn:Pb.
  { (* B's handler failed to prepare: B has sent the error report only *)
    exfalso. assert (W : x_wire (exchange b P) = echo).
    { unfold exchange. cbv zeta. rewrite Pb, finish_wire. cbn [fin_state]. rewrite wire_wr.
      destruct (h_present (c_handler b)); reflexivity. }
    rewrite W in HI. eapply handshake_echo; [|exact Ha]. rewrite (proj1 (init_state_facts a in_a)). exact HI. }
  destruct (init_state_facts a in_a) as (_&_&Hha&Hma&_).
  assert (Oa : side_ok sa0).
  { unfold side_ok, hob. rewrite (handshake_h _ _ Ha), Hha. exact Sa. }
  assert (OKa : okside sa0).
  { split; [exact Oa|]. unfold hob. rewrite (handshake_h _ _ Ha), Hha. split; [apply SSa|apply SSa]. }
  assert (Fin : forall sb0 (mb : bool), handshake (init_state b P) = ROk sb0 -> mb = negb (c_master b) ->
            side_ok sb0 /\ x_wire (exchange b P) = wire sb0 ++ tailw mb sb0 /\ okside sb0 /\ proc_mids (s_ev sb0) = []).
  { intros sb0 mb Hb ->. destruct (exchange_ok _ _ _ Pb Hb) as [W E].
    assert (Hob : hob sb0 = h_outbox (c_handler b)).
    { unfold hob. rewrite (handshake_h _ _ Hb), (proj1 (proj2 (proj2 (init_state_facts b P)))). reflexivity. }
    split; [unfold side_ok; rewrite Hob; exact Sb|]. split; [rewrite W; apply tailw_eq|]. split.
    - split; [unfold side_ok; rewrite Hob; exact Sb|]. rewrite Hob. split; [apply SSb|apply SSb].
    - rewrite (handshake_ev _ _ Hb). apply init_proc. }
  destruct (c_master a) eqn:Ma; cbn [negb] in *.
  - (* A is the master *)
    assert (Mb : c_master b = false) by (destruct (c_master b); [discriminate|reflexivity]).
    destruct Hhs as (M&S&sm&ss&Hm1&Hm2&Hm3&Hs1&Hs2&Hs3).
    (* what A wrote in its handshake *)
    assert (Wsa : wire sa0 = M).
    { pose proof (handshake_master_out (init_state a (S ++ [70])) in_a sm
                    (eq_trans (proj1 (proj2 (proj2 (proj2 (init_state_facts a (S ++ [70])))))) Ma) Hm1) as Ho.
      rewrite init_state_set_in, Ha in Ho. rewrite <- Hm3. apply wire_out, Ho. }
    rewrite tailw_eq, Wsa in HP.
    (* B reads it *)
    assert (Hj : exists j, P = M ++ j).
    { destruct (prefix_comparable P M _ HP (prefix_app_l M _)) as [[j Hj]|Hj]; [|exact Hj].
      rewrite Hj, init_state_ext in Hs1. destruct (hs_back _ _ _ Hs1) as [(s1&_&E)|(s1&Hb&_)].
      - apply (f_equal s_in) in E. cbn [ext set_in s_in] in E. rewrite Hs2 in E. symmetry in E.
        apply app_eq_nil in E. destruct E as [_ ->]. exists []. rewrite Hj, !app_nil_r. reflexivity.
      - exfalso. destruct (exchange_fail _ _ _ _ Pb Hb) as [W _]. cbn [xerr fin_state] in W.
        pose proof (handshake_slave_fail_out _ _ _
                      (eq_trans (proj1 (proj2 (proj2 (proj2 (init_state_facts b P))))) Mb) Hb) as Ho.
        rewrite (proj1 (proj2 (init_state_facts b P))) in Ho. unfold wire in W. rewrite Ho in W. cbn in W.
        rewrite W in HI. apply prefix_of_nil in HI. subst in_a.
        destruct (hs_sfx _ _ Ha) as [x Hx]. rewrite (proj1 (init_state_facts a [])) in Hx.
        symmetry in Hx. apply app_eq_nil in Hx. apply Hne, Hx. }
    destruct Hj as [j Hj].
    assert (Hb : handshake (init_state b P) = ROk (ext j ss)) by (rewrite Hj, init_state_ext; apply hs_forward, Hs1).
    destruct (Fin _ true Hb ltac:(rewrite Mb; reflexivity)) as (Ob&WB&OKb&Eb0).
    change (wire (ext j ss)) with (wire ss) in WB. rewrite Hs3 in WB.
    destruct (tailw_send_F (ext j ss)) as [rF HF].
    (* A has read exactly S *)
    assert (Hcons : in_a = S ++ s_in sa0).
    { rewrite WB, HF in HI.
      destruct (prefix_comparable in_a (S ++ [70]) _ HI) as [[j' Hj']|[j' Hj']].
      { exists rF. rewrite <- app_assoc. reflexivity. }
      - rewrite Hj', init_state_ext in Hm1. destruct (hs_back _ _ _ Hm1) as [(s1&E1&E)|(s1&E1&_)]; rewrite Ha in E1; [|discriminate].
        injection E1 as <-. apply (f_equal s_in) in E. cbn [ext set_in s_in] in E. rewrite Hm2 in E.
        apply (app_inv_tail j'). rewrite <- Hj', <- app_assoc, <- E. reflexivity.
      - rewrite Hj', init_state_ext, (hs_forward _ _ _ Hm1) in Ha. injection Ha as <-.
        cbn [ext set_in s_in]. rewrite Hm2, Hj', <- app_assoc. reflexivity. }
    destruct (joint_acc (Datatypes.S (inlen (ext j ss) + inlen sa0)%nat) (ext j ss) sa0) as [_ K2];
      [lia|exact OKb|exact OKa| | |].
    + cbn [ext set_in s_in]. rewrite Hs2. cbn [app]. rewrite Hj in HP. apply prefix_app_inv in HP. exact HP.
    + rewrite WB, Hcons in HI. apply prefix_app_inv in HI. exact HI.
    + intros m Km. destruct (K2 m Km) as [K'|K']; [rewrite Ea0 in K'; destruct K'|].
      rewrite (handshake_h _ _ Ha), Hha in K'. exact K'.
  - (* A is the slave *)
    assert (Mb : c_master b = true) by (destruct (c_master b); [reflexivity|discriminate]).
    destruct Hhs as (M&S&sm&ss&Hm1&Hm2&Hm3&Hs1&Hs2&Hs3).
    (* whatever B does, it has written M first *)
    assert (HX : exists X, x_wire (exchange b P) = M ++ X).
    { pose proof (handshake_master_out (init_state b (S ++ [70])) P sm
                    (eq_trans (proj1 (proj2 (proj2 (proj2 (init_state_facts b (S ++ [70])))))) Mb) Hm1) as Ho.
      rewrite init_state_set_in in Ho. pose proof (handshake_nopanic (init_state b P)) as Np.
      destruct (handshake (init_state b P)) as [sb0|e sB|] eqn:Hb; [| |congruence].
      - destruct (Fin _ false eq_refl ltac:(rewrite Mb; reflexivity)) as (_&W&_). eexists. rewrite W, <- Hm3, (wire_out _ _ Ho). reflexivity.
      - destruct (exchange_fail _ _ _ _ Pb Hb) as [W _]. destruct (grows_wire _ _ (fin_state_grows (xerr e) sB)) as [d Hd].
        exists d. rewrite W, Hd, <- Hm3, (wire_out _ _ Ho). reflexivity. }
    destruct HX as [X HX].
    (* A reads it *)
    assert (Hj : exists j, in_a = M ++ j).
    { rewrite HX in HI. destruct (prefix_comparable in_a M _ HI (prefix_app_l M _)) as [[j Hj]|Hj]; [|exact Hj].
      rewrite Hj, init_state_ext in Hs1. destruct (hs_back _ _ _ Hs1) as [(s1&E1&E)|(s1&E1&_)]; rewrite Ha in E1; [|discriminate].
      apply (f_equal s_in) in E. cbn [ext set_in s_in] in E. rewrite Hs2 in E. symmetry in E.
      apply app_eq_nil in E. destruct E as [_ ->]. exists []. rewrite Hj, !app_nil_r. reflexivity. }
    destruct Hj as [j Hj].
    assert (Esa : sa0 = ext j ss).
    { rewrite Hj, init_state_ext, (hs_forward _ _ _ Hs1) in Ha. injection Ha as <-. reflexivity. }
    assert (Ej : s_in sa0 = j) by (rewrite Esa; cbn [ext set_in s_in]; rewrite Hs2; reflexivity).
    assert (Wsa : wire sa0 = S) by (rewrite Esa; exact Hs3).
    rewrite tailw_eq, Wsa in HP. destruct (tailw_send_F sa0) as [rF HF].
    (* B reads A's greeting *)
    assert (Hb : exists sb0, handshake (init_state b P) = ROk sb0 /\ P = S ++ s_in sb0 /\ wire sb0 = M).
    { rewrite HF in HP.
      destruct (prefix_comparable P (S ++ [70]) _ HP) as [[j2 Hj2]|[j2 Hj2]].
      { exists rF. rewrite <- app_assoc. reflexivity. }
      - rewrite Hj2, init_state_ext in Hm1. destruct (hs_back _ _ _ Hm1) as [(s1&E1&E)|(s1&E1&L)].
        + exists s1. split; [exact E1|]. split.
          * apply (f_equal s_in) in E. cbn [ext set_in s_in] in E. rewrite Hm2 in E.
            apply (app_inv_tail j2). rewrite <- Hj2, <- app_assoc, <- E. reflexivity.
          * rewrite <- Hm3, E. reflexivity.
        + exfalso. destruct (exchange_fail _ _ _ _ Pb E1) as [W _]. cbn [xerr fin_state] in W.
          destruct L as (L&_). destruct (pre_wire _ _ L) as [d Hd]. rewrite Hm3 in Hd.
          rewrite W, Hj, Hd in HI. apply prefix_length in HI. rewrite !app_length in HI.
          apply Hne. rewrite Ej. destruct j; [reflexivity|cbn [length] in HI; lia].
      - exists (ext j2 sm). split; [rewrite Hj2, init_state_ext; apply hs_forward, Hm1|].
        split; [cbn [ext set_in s_in]; rewrite Hm2, Hj2, <- app_assoc; reflexivity|exact Hm3]. }
    destruct Hb as (sb0&Hb&HPb&Wsb).
    destruct (Fin _ false Hb ltac:(rewrite Mb; reflexivity)) as (Ob&WB&OKb&Eb0).
    destruct (joint_acc (Datatypes.S (inlen sa0 + inlen sb0)%nat) sa0 sb0) as [K2 _];
      [lia|exact OKa|exact OKb| | |].
    + rewrite WB, Wsb, Hj in HI. apply prefix_app_inv in HI. rewrite Ej. exact HI.
    + rewrite HPb in HP. apply prefix_app_inv in HP. exact HP.
    + intros m Km. destruct (K2 m Km) as [K'|K']; [rewrite Ea0 in K'; destruct K'|].
      rewrite (handshake_h _ _ Ha), Hha in K'. exact K'.
Qed.

(* corollaries *)
Corollary not_stored_unless_accepted (a b : side_cfg) (in_a in_b : bytes) :
  c_master a = negb (c_master b) ->
  hs_compat (if c_master a then a else b) (if c_master a then b else a) ->
  side_sound a -> side_sound b -> cut_session a b in_a in_b ->
  forall mid, policy_of (c_handler a) mid <> AAccept -> filter (proc mid) (x_events (exchange a in_a)) = [].
Proof.
  intros Hrole Hhs SSa SSb Hcut mid Hn.
  destruct (filter (proc mid) (x_events (exchange a in_a))) as [|e l] eqn:E; [reflexivity|exfalso].
  assert (K : In e (filter (proc mid) (x_events (exchange a in_a)))) by (rewrite E; left; reflexivity).
  apply filter_In in K. destruct K as [K1 K2]. destruct e; try discriminate. cbn [proc] in K2.
  apply beq_bytes_true in K2. subst. apply Hn. eapply stored_only_accepted; eassumption.
Qed.

(* what a side stores has the MID of an entry of the peer's outbox *)
Lemma stored_from_outbox (x y : side_cfg) (in_x in_y : bytes) :
  c_master x = negb (c_master y) ->
  hs_compat (if c_master x then x else y) (if c_master x then y else x) ->
  side_sound x -> side_sound y -> cut_session x y in_x in_y ->
  forall mid d ok, In (EvProcess mid d ok) (x_events (exchange y in_y)) -> In mid (map o_mid (h_outbox (c_handler x))).
Proof.
  intros Hrole Hhs Sx Sy Hcut mid d ok He.
  destruct (roles_swap x y Hrole Hhs) as [Hrole' Hhs'].
  pose proof (cut_events y x in_y in_x Hrole' Hhs' (side_sound_syn _ Sy) (side_sound_syn _ Sx) (cut_session_sym _ _ _ _ Hcut) _ He) as K.
  cbn [Pk fst] in K. destruct K as (q&Hq&Hm).
  destruct Sx as (_&_&_&Wx&_). pose proof (proj1 (Forall_forall _ _) Wx q Hq) as Wq. unfold prop_wf in Wq. rewrite Wq in Hm.
  injection Hm as <- _. apply in_map, Hq.
Qed.

(* ================================================================================== *)
(* 2. One-sided: EvSetSent is recorded only for MIDs of the outbox (any input)          *)
(* ================================================================================== *)
Definition PobM (M : list bytes) (e : event) : Prop := match e with EvSetSent m _ => In m M | _ => True end.

Lemma nstep_stepP M s s' : nstep s s' -> step (PobM M) s s'.
Proof.
  intros (H&E&V&N). split; [unfold hsig; rewrite H; reflexivity|]. intros e K. rewrite V in K.
  apply in_app_or in K. destruct K as [K|K]; [right|left; exact K].
  destruct e as [| |m r| | | |]; try exact I. exfalso.
  assert (Km : In m (own_mids E)) by (unfold own_mids; apply in_flat_map; eexists; split; [exact K|left; reflexivity]).
  rewrite N in Km. exact Km.
Qed.

Lemma send_accepted_sent props : forall s ans sent,
  match send_accepted s props ans sent with
  | ROk (_, sent') => forall m b, In (m, b) sent' -> In (m, b) sent \/ In m (map o_mid props)
  | _ => True end.
Proof.
  induction props as [|p ps IH]; intros s ans sent; cbn [send_accepted]; [auto|].
  assert (Lift : forall s0 ans0 sent0, (forall m b, In (m, b) sent0 -> In (m, b) sent \/ In m (map o_mid (p :: ps))) ->
            match send_accepted s0 ps ans0 sent0 with
            | ROk (_, sent') => forall m b, In (m, b) sent' -> In (m, b) sent \/ In m (map o_mid (p :: ps))
            | _ => True end).
  { intros s0 ans0 sent0 H0. specialize (IH s0 ans0 sent0).
    destruct (send_accepted s0 ps ans0 sent0) as [[s' l]|e s'|]; try exact I.
    intros m b K. destruct (IH m b K) as [K'|K']; [apply H0, K'|right; right; exact K']. }
  destruct ans as [|a r]; cbn zeta iota beta; [apply Lift; auto|].
  destruct a as [|[| |] off]; [apply Lift; auto| | |apply Lift; auto].
  - destruct (write_compressed s p off) as [s1|e s1|]; try exact I.
    apply Lift. intros m b [E|K]; [injection E as <- <-; right; left; reflexivity|left; exact K].
  - apply Lift. intros m b [E|K]; [injection E as <- <-; right; left; reflexivity|left; exact K].
Qed.

Lemma mark_sent_ob M : forall l s, (forall m b, In (m, b) l -> In m M) -> step (PobM M) s (mark_sent l s).
Proof.
  unfold mark_sent. induction l as [|[m b] l IH]; intros s H; cbn [fold_left]; [apply step_refl|].
  eapply step_trans; [|apply IH; intros m' b' K; apply (H m' b'); right; exact K]. cbn [snd fst].
  destruct b; [apply step_refl|]. split; [reflexivity|]. intros e [<-|K]; [right; apply (H m false); left; reflexivity|left; exact K].
Qed.

Lemma ho_peek_ob M sent s4 : (forall m b, In (m, b) sent -> In m M) -> res_step (PobM M) s4 (ho_peek sent s4).
Proof.
  intros H. unfold ho_peek. cbv zeta.
  assert (S5 : step (PobM M) s4 (mark_rej sent s4)).
  { apply (step_weaken (Prej sent)); [intros e (m&->&K); apply (H m true K)|]. apply (mark_rej_step sent sent s4). auto. }
  set (s5 := mark_rej sent s4) in *.
  assert (Bend : forall s, step (PobM M) s (ev s EvBlockEnd)) by (intros s; apply step_ev; exact I).
  destruct (s_in s5) as [|b r]; [cbn [res_step]; eapply step_trans; [exact S5|apply Bend]|].
  destruct (negb ((b =? 70) || (b =? 59))).
  - pose proof (next_line_eqo true s5) as Hq.
    destruct (next_line true s5) as [[l s']|e s'|]; cbn [res_eqo] in Hq; [| |exact I]; cbn [res_step];
      (eapply step_trans; [exact S5|]; eapply step_trans; [apply step_eqo, Hq|apply Bend]).
  - cbn [res_step]. eapply step_trans; [exact S5|]. eapply step_trans; [apply mark_sent_ob, H|apply Bend].
Qed.

Lemma handle_outbound_ob s : res_step (PobM (map o_mid (hob s))) s (handle_outbound s).
Proof.
  set (M := map o_mid (hob s)). rewrite handle_outbound_eq. destruct (outbound s) as [props s0] eqn:Eo.
  pose proof (outbound_step s) as S0. rewrite Eo in S0. cbn [snd] in S0.
  apply (step_weaken _ (PobM M)) in S0; [|intros e ->; exact I].
  destruct (outbound_block _ _ _ Eo) as (Hin&_).
  destruct props as [|p ps].
  { cbv zeta. cbn [res_step]. eapply step_trans; [exact S0|apply step_same; reflexivity]. }
  cbv zeta. set (block := firstn (N.to_nat MaxBlockSize) (p :: ps)). set (s2 := ho_propose block s0).
  assert (Hb : forall m, In m (map o_mid block) -> In m M).
  { intros m K. apply in_map_iff in K. destruct K as (q&<-&Hq). apply in_map, Hin. eapply In_firstn; exact Hq. }
  assert (S2 : step (PobM M) s s2) by (eapply step_trans; [exact S0|apply ho_propose_step]).
  pose proof (read_reply_eqo (S (length (s_in s2))) s2) as Q3.
  destruct (read_reply (S (length (s_in s2))) s2) as [[reply s3]|e s3|]; cbn [res_eqo] in Q3; [| |exact I].
  2:{ cbn [res_step]. eapply step_trans; [exact S2|apply step_eqo, Q3]. }
  eapply res_step_trans; [eapply step_trans; [exact S2|apply step_eqo, Q3]|].
  unfold ho_transfer. destruct (slice_from 3 reply) as [astr|]; [|exact I].
  destruct (parse_answers _ astr _ []) as [ans|]; [|apply step_refl].
  pose proof (send_accepted_step block s3 ans []) as Hs. pose proof (send_accepted_sent block s3 ans []) as Hl.
  destruct (send_accepted s3 block ans []) as [[s4 sr]|e s4|]; [| |exact I].
  - eapply res_step_trans; [eapply step_weaken; [|exact Hs]; intros e [m ->]; exact I|].
    apply ho_peek_ob. intros m b K. rewrite rev'_rev in K. apply in_rev in K.
    destruct (Hl m b K) as [[]|K']. apply Hb, K'.
  - cbn [res_step]. eapply step_weaken; [|exact Hs]. intros e0 [m ->]. exact I.
Qed.

Lemma turns_ob M : forall f (my : bool) s, map o_mid (hob s) = M -> step (PobM M) s (snd (turns f my s)).
Proof.
  induction f as [|f IH]; intros my s HM; [apply step_refl|]. cbn [turns]. destruct my.
  - pose proof (handle_outbound_ob s) as Ho. rewrite HM in Ho.
    destruct (handle_outbound s) as [[q s1]|e s1|]; cbn [res_step] in Ho; [| |apply step_refl].
    + destruct q; [exact Ho|]. eapply step_trans; [exact Ho|]. apply IH. rewrite (step_hob _ _ _ Ho). exact HM.
    + exact Ho.
  - pose proof (inbound_loop_n (S (length (s_in s))) s [] []) as Hi.
    destruct (inbound_loop (S (length (s_in s))) s [] []) as [[[q props] s1]|e s1|]; cbn [res_n] in Hi;
      [|apply nstep_stepP, Hi|apply step_refl].
    pose proof (nstep_stepP M _ _ Hi) as S1.
    pose proof (receive_accepted_n props s1) as Hr.
    destruct (receive_accepted s1 props) as [s2|e s2| |]; try exact S1.
    + pose proof (nstep_stepP M _ _ Hr) as S2. destruct q; [eapply step_trans; eassumption|].
      eapply step_trans; [exact S1|]. eapply step_trans; [exact S2|]. apply IH.
      unfold hob. rewrite (proj1 Hr), (proj1 Hi). exact HM.
    + eapply step_trans; [exact S1|apply nstep_stepP, Hr].
Qed.

Theorem sent_only_outbox (x : side_cfg) (i : bytes) :
  forall m r, In (EvSetSent m r) (x_events (exchange x i)) -> In m (map o_mid (h_outbox (c_handler x))).
Proof.
  intros m r He. set (M := map o_mid (h_outbox (c_handler x))).
  assert (K : forall s, (forall e, In e (s_ev s) -> PobM M e) -> x_events (exchange x i) = rev (s_ev s) -> In m M).
  { intros s Hs E. rewrite E, <- in_rev in He. exact (Hs _ He). }
  assert (Init : forall e, In e (s_ev (init_state x i)) -> PobM M e) by (intros e H; rewrite (init_events _ _ _ H); exact I).
  destruct (h_present (c_handler x) && h_prepare_err (c_handler x)) eqn:Pa.
  { apply (K (init_state x i) Init). unfold exchange. cbv zeta. fold (init_state x i). rewrite Pa. apply finish_events. }
  pose proof (handshake_nopanic (init_state x i)) as Np.
  destruct (handshake (init_state x i)) as [s0|e s0|] eqn:Ha; [| |congruence].
  - destruct (exchange_ok _ _ _ Pa Ha) as [_ EA]. apply (K (final (negb (c_master x)) s0)); [|exact EA].
    unfold final. rewrite fin_state_ev. unfold run.
    assert (HM : map o_mid (hob s0) = M).
    { unfold hob. rewrite (handshake_h _ _ Ha), (proj1 (proj2 (proj2 (init_state_facts x i)))). reflexivity. }
    destruct (turns_ob M (2 * inlen s0 + 2) (negb (c_master x)) s0 HM) as [_ Hs].
    intros e0 H0. destruct (Hs e0 H0) as [K0|K0]; [rewrite (handshake_ev _ _ Ha) in K0; apply Init, K0|exact K0].
  - destruct (exchange_fail _ _ _ _ Pa Ha) as [_ EA]. apply (K (fin_state (xerr e) s0)); [|exact EA].
    rewrite fin_state_ev, (handshake_fail_ev _ _ _ Ha). exact Init.
Qed.

(* ================================================================================== *)
(* 3. (N) SEVERAL faulty sessions followed by a complete one                           *)
(* ================================================================================== *)
(* a sequence of cut sessions, each on the mailboxes the previous one left *)
Inductive history : side_cfg -> side_cfg -> list (outcome * outcome) -> side_cfg -> side_cfg -> Prop :=
| h_nil x y : history x y [] x y
| h_cut x y in_x in_y l x' y' :
    cut_session x y in_x in_y ->
    history (next_cfg x (exchange x in_x)) (next_cfg y (exchange y in_y)) l x' y' ->
    history x y ((exchange x in_x, exchange y in_y) :: l) x' y'.

Definition logs_x (l : list (outcome * outcome)) : list event := flat_map (fun oo => x_events (fst oo)) l.
Definition logs_y (l : list (outcome * outcome)) : list event := flat_map (fun oo => x_events (snd oo)) l.

Lemma filter_of_own m E L : filter (own m) E = L -> filter (sent_ev m) E = filter (sent_ev m) L.
Proof. intros <-. symmetry. apply filter_filter_imp, sent_ev_own. Qed.
Lemma filter_of_proc m E L : filter (proc m) E = L -> filter (stored_ev m) E = filter (stored_ev m) L.
Proof. intros <-. symmetry. apply filter_filter_imp, stored_ev_proc. Qed.

Lemma filter_one (f : event -> bool) l e : In e l -> f e = true -> (length (filter f l) <= 1)%nat -> filter f l = [e].
Proof.
  intros Hi Hf Hl. apply cnt_one; [|exact Hi|exact Hf]. unfold cnt.
  assert (K : (1 <= length (filter f l))%nat) by (apply existsb_filter_pos, existsb_exists; eauto). lia.
Qed.

(* what the remaining sessions (the cut ones of l and the complete one) do with a MID, by the state of
   the two mailboxes *)
Definition rest_spec (x y : side_cfg) (Lx Ly : list event) (mid : bytes) : Prop :=
  (~ In mid (map o_mid (h_outbox (c_handler x))) ->
     filter (sent_ev mid) Lx = [] /\ filter (stored_ev mid) Ly = []) /\
  (forall p, In p (h_outbox (c_handler x)) -> o_mid p = mid ->
     (policy_of (c_handler y) mid = AReject ->
        filter (stored_ev mid) Ly = [] /\ length (filter (sent_ev mid) Lx) = 1%nat) /\
     (policy_of (c_handler y) mid = AAccept ->
        filter (stored_ev mid) Ly = [EvProcess mid (pm_data p) true] /\ length (filter (sent_ev mid) Lx) = 1%nat)).

Lemma many_gen x y l xn yn : history x y l xn yn ->
  c_master x = negb (c_master y) ->
  hs_compat (if c_master x then x else y) (if c_master x then y else x) ->
  side_sound x -> side_sound y -> side_ready xn yn -> side_ready yn xn ->
  forall in_x' in_y', closed xn yn in_x' in_y' ->
  forall mid, rest_spec x y (logs_x l ++ x_events (exchange xn in_x')) (logs_y l ++ x_events (exchange yn in_y')) mid.
Proof.
  induction 1 as [x y|x y in_x in_y l xn yn Hcut Hh IH]; intros Hrole Hhs Sx Sy Rx Ry ix iy Hc mid.
  - (* the complete session *)
    cbn [logs_x logs_y flat_map app].
    destruct (complete_exchange_delivers x y Hrole Hhs Rx Ry) as [_ Hall].
    destruct (Hall ix iy Hc) as (_&_&[HD HA]&_). split.
    + intros Hn. destruct (HA mid Hn) as [A1 A2]. split; [rewrite (filter_of_own _ _ _ A1)|rewrite (filter_of_proc _ _ _ A2)]; reflexivity.
    + intros p Hp <-. specialize (HD p Hp). split; intros Hpol; rewrite Hpol in HD.
      * destruct HD as [A1 A2]. rewrite (filter_of_own _ _ _ A1), (filter_of_proc _ _ _ A2). cbn. rewrite beq_bytes_refl. split; reflexivity.
      * destruct HD as (A1&A2&_). rewrite (filter_of_own _ _ _ A1), (filter_of_proc _ _ _ A2). cbn. rewrite beq_bytes_refl. split; reflexivity.
  - (* a cut session first *)
    set (ox := exchange x in_x) in *. set (oy := exchange y in_y) in *.
    set (x1 := next_cfg x ox) in *. set (y1 := next_cfg y oy) in *.
    assert (Hhs1 : hs_compat (if c_master x1 then x1 else y1) (if c_master x1 then y1 else x1)).
    { unfold x1, y1. cbn [next_cfg c_master]. destruct (c_master x); apply hs_compat_next, Hhs. }
    specialize (IH Hrole Hhs1 (side_sound_next x ox Sx) (side_sound_next y oy Sy) Rx Ry ix iy Hc mid).
    change (logs_x ((ox, oy) :: l)) with (x_events ox ++ logs_x l).
    change (logs_y ((ox, oy) :: l)) with (x_events oy ++ logs_y l). rewrite <- !app_assoc.
    set (Lx1 := logs_x l ++ x_events (exchange xn ix)) in *. set (Ly1 := logs_y l ++ x_events (exchange yn iy)) in *.
    destruct IH as [IHC IHP].
    destruct (roles_swap x y Hrole Hhs) as [Hrole' Hhs'].
    pose proof Sx as (_&_&_&Wx&Ndx).
    (* this session *)
    assert (F1 : (length (filter (sent_ev mid) (x_events ox)) <= 1)%nat) by (apply sent_at_most_once, Ndx).
    assert (F2 : (length (filter (stored_ev mid) (x_events oy)) <= 1)%nat).
    { apply stored_le_proc. apply (processed_at_most_once y x in_y in_x Hrole' Hhs' Sy Sx (cut_session_sym _ _ _ _ Hcut)). }
    assert (Gone : sent_in (x_events ox) mid = true -> ~ In mid (map o_mid (h_outbox (c_handler x1)))).
    { intros Es K. apply in_map_iff in K. destruct K as (q&Eq&Hq). apply In_next_outbox in Hq. destruct Hq as [_ Hq].
      rewrite Eq, Es in Hq. discriminate. }
    assert (Stay : forall p, In p (h_outbox (c_handler x)) -> o_mid p = mid -> sent_in (x_events ox) mid = false ->
              In p (h_outbox (c_handler x1))).
    { intros p Hp <- Es. apply In_next_outbox. split; assumption. }
    unfold rest_spec. rewrite !filter_app, !app_length. split.
    + intros Hn.
      assert (E1 : filter (sent_ev mid) (x_events ox) = []).
      { apply existsb_filter_nil. destruct (existsb (sent_ev mid) (x_events ox)) eqn:E; [|reflexivity]. exfalso.
        apply (sent_in_true (x_events ox) mid) in E. destruct E as [r Hr]. apply Hn. eapply sent_only_outbox; exact Hr. }
      assert (E2 : filter (stored_ev mid) (x_events oy) = []).
      { apply existsb_filter_nil. destruct (existsb (stored_ev mid) (x_events oy)) eqn:E; [|reflexivity]. exfalso.
        apply (stored_in_true (x_events oy) mid) in E. destruct E as [d Hd]. apply Hn.
        eapply (stored_from_outbox x y in_x in_y); eassumption. }
      destruct IHC as [C1 C2].
      { intros K. apply Hn. apply in_map_iff in K. destruct K as (q&Eq&Hq). apply In_next_outbox in Hq.
        rewrite <- Eq. apply in_map, Hq. }
      rewrite E1, E2, C1, C2. split; reflexivity.
    + intros p Hp Hmid. split; intros Hpol.
      * (* y's policy rejects *)
        assert (E2 : filter (stored_ev mid) (x_events oy) = []).
        { apply existsb_filter_nil. destruct (existsb (stored_ev mid) (x_events oy)) eqn:E; [|reflexivity]. exfalso.
          apply (stored_in_true (x_events oy) mid) in E. destruct E as [d Hd].
          pose proof (stored_only_accepted y x in_y in_x Hrole' Hhs' Sy Sx (cut_session_sym _ _ _ _ Hcut) _ _ _ Hd) as K.
          congruence. }
        assert (Pol1 : policy_of (c_handler y1) mid = AReject).
        { unfold y1. cbn [next_cfg c_handler]. rewrite policy_of_next. destruct (stored_in (x_events oy) mid); [reflexivity|exact Hpol]. }
        rewrite E2. destruct (sent_in (x_events ox) mid) eqn:Es.
        -- destruct (IHC (Gone eq_refl)) as [C1 C2]. rewrite C1, C2. split; [reflexivity|].
           unfold sent_in in Es. apply existsb_filter_pos in Es. cbn [length]. lia.
        -- destruct (IHP p (Stay p Hp Hmid eq_refl) Hmid) as [IR _]. destruct (IR Pol1) as [R1 R2].
           unfold sent_in in Es. rewrite (existsb_filter_nil _ _ Es), R1, R2. split; reflexivity.
      * (* y's policy accepts *)
        subst mid. destruct (sent_in (x_events ox) (o_mid p)) eqn:Es.
        -- destruct (IHC (Gone eq_refl)) as [C1 C2]. rewrite C1, C2, app_nil_r.
           pose proof Es as Es'. apply sent_in_true in Es'. destruct Es' as [[|] Hr].
           { pose proof (rejected_by_policy x y in_x in_y Hrole Hhs (side_sound_syn _ Sx) (side_sound_syn _ Sy) Hcut _ Hr). congruence. }
           pose proof (sent_only_if_received x y in_x in_y Hrole Hhs (side_sound_syn _ Sx) (side_sound_syn _ Sy) Wx Ndx Hcut p Hp Hr) as Hd.
           split; [apply filter_one; [exact Hd|cbn; apply beq_bytes_refl|exact F2]|].
           unfold sent_in in Es. apply existsb_filter_pos in Es. cbn [length]. lia.
        -- unfold sent_in in Es. rewrite (existsb_filter_nil _ _ Es). cbn [length app].
           destruct (stored_in (x_events oy) (o_mid p)) eqn:Et.
           ++ pose proof Et as Et'. apply stored_in_true in Et'. destruct Et' as [d Hd].
              pose proof (stored_is_own x y in_x in_y Hrole Hhs (side_sound_syn _ Sx) (side_sound_syn _ Sy) Wx Ndx Hcut p d true Hp Hd). subst d.
              assert (Pol1 : policy_of (c_handler y1) (o_mid p) = AReject).
              { unfold y1. cbn [next_cfg c_handler]. rewrite policy_of_next. fold oy. rewrite Et. reflexivity. }
              destruct (IHP p (Stay p Hp eq_refl eq_refl) eq_refl) as [IR _]. destruct (IR Pol1) as [R1 R2].
              rewrite R1, R2, app_nil_r. split; [|reflexivity].
              apply filter_one; [exact Hd|cbn; apply beq_bytes_refl|exact F2].
           ++ assert (Pol1 : policy_of (c_handler y1) (o_mid p) = AAccept).
              { unfold y1. cbn [next_cfg c_handler]. rewrite policy_of_next. fold oy. rewrite Et. exact Hpol. }
              destruct (IHP p (Stay p Hp eq_refl eq_refl) eq_refl) as [_ IA]. destruct (IA Pol1) as [A1 A2].
              unfold stored_in in Et. rewrite (existsb_filter_nil _ _ Et), A1, A2. split; reflexivity.
Qed.

Lemma history_ready x y l xn yn : history x y l xn yn -> l <> [] -> side_sound x -> side_sound y ->
  side_ready xn yn /\ side_ready yn xn.
Proof.
  induction 1 as [x y|x y in_x in_y l xn yn Hcut Hh IH]; intros Hne Sx Sy; [congruence|].
  destruct l as [|oo l'].
  - inversion Hh; subst. split; apply side_ready_next; assumption.
  - apply IH; [discriminate|apply side_sound_next, Sx|apply side_sound_next, Sy].
Qed.

Definition swap (oo : outcome * outcome) : outcome * outcome := (snd oo, fst oo).
Lemma history_sym x y l xn yn : history x y l xn yn -> history y x (map swap l) yn xn.
Proof.
  induction 1 as [x y|x y in_x in_y l xn yn Hcut Hh IH]; [constructor|].
  cbn [map swap fst snd]. apply h_cut; [apply cut_session_sym, Hcut|exact IH].
Qed.
Lemma logs_swap l : logs_x (map swap l) = logs_y l /\ logs_y (map swap l) = logs_x l.
Proof.
  induction l as [|oo l [IH1 IH2]]; [split; reflexivity|]. unfold logs_x, logs_y in *. cbn [map flat_map swap fst snd].
  rewrite IH1, IH2. split; reflexivity.
Qed.

(* CONVERGENCE AFTER SEVERAL FAULTY SESSIONS.  x and y: opposite roles, compatible handshakes, sound
   sides.  l: one or more sessions, each cut anywhere in either direction or stopped by a storage
   error, each on the mailboxes the previous one left; then one complete session.  For every MID, over
   ALL the logs of x (logs_x l ++ the last) and ALL the logs of y: rest_spec -- nothing for a MID that
   is not in x's outbox; for the entry p with that MID, if y's original policy rejects: never stored,
   exactly one EvSetSent; if it accepts: the successful stores are exactly
   [EvProcess mid (pm_data p) true] and there is exactly one EvSetSent. *)
Theorem convergence_many_spec (x y : side_cfg) l xn yn (in_x' in_y' : bytes) :
  c_master x = negb (c_master y) ->
  hs_compat (if c_master x then x else y) (if c_master x then y else x) ->
  side_sound x -> side_sound y ->
  history x y l xn yn -> l <> [] -> closed xn yn in_x' in_y' ->
  forall mid, rest_spec x y (logs_x l ++ x_events (exchange xn in_x')) (logs_y l ++ x_events (exchange yn in_y')) mid.
Proof.
  intros Hrole Hhs Sx Sy Hh Hne Hc mid. destruct (history_ready _ _ _ _ _ Hh Hne Sx Sy) as [Rx Ry].
  exact (many_gen x y l xn yn Hh Hrole Hhs Sx Sy Rx Ry in_x' in_y' Hc mid).
Qed.

(* in the words of the property, both directions *)
Theorem convergence_many (x y : side_cfg) l xn yn (in_x' in_y' : bytes) :
  c_master x = negb (c_master y) ->
  hs_compat (if c_master x then x else y) (if c_master x then y else x) ->
  side_sound x -> side_sound y ->
  history x y l xn yn -> l <> [] -> closed xn yn in_x' in_y' ->
  let Lx := logs_x l ++ x_events (exchange xn in_x') in let Ly := logs_y l ++ x_events (exchange yn in_y') in
  (forall p, In p (h_outbox (c_handler x)) -> policy_of (c_handler y) (o_mid p) = AAccept ->
     filter (stored_ev (o_mid p)) Ly = [EvProcess (o_mid p) (pm_data p) true] /\
     length (filter (sent_ev (o_mid p)) Lx) = 1%nat) /\
  (forall p, In p (h_outbox (c_handler y)) -> policy_of (c_handler x) (o_mid p) = AAccept ->
     filter (stored_ev (o_mid p)) Lx = [EvProcess (o_mid p) (pm_data p) true] /\
     length (filter (sent_ev (o_mid p)) Ly) = 1%nat).
Proof.
  intros Hrole Hhs Sx Sy Hh Hne Hc Lx Ly. split; intros p Hp Ha.
  - destruct (convergence_many_spec x y l xn yn in_x' in_y' Hrole Hhs Sx Sy Hh Hne Hc (o_mid p)) as [_ HP].
    destruct (HP p Hp eq_refl) as [_ HA]. exact (HA Ha).
  - destruct (roles_swap x y Hrole Hhs) as [Hrole' Hhs'].
    assert (Hne' : map swap l <> []) by (destruct l; [congruence|discriminate]).
    assert (Hc' : closed yn xn in_y' in_x') by (destruct Hc as [H1 H2]; split; assumption).
    destruct (convergence_many_spec y x (map swap l) yn xn in_y' in_x' Hrole' Hhs' Sy Sx (history_sym _ _ _ _ _ Hh) Hne' Hc' (o_mid p)) as [_ HP].
    destruct (HP p Hp eq_refl) as [_ HA]. destruct (logs_swap l) as [E1 E2]. rewrite E1, E2 in HA. exact (HA Ha).
Qed.

(* ================================================================================== *)
(* 4. Instances                                                                        *)
(* ================================================================================== *)
(* a cut session by computation: b receives the first k bytes a writes in the complete session, a
   the first j bytes b then writes *)
Definition cp_in_a (a b : side_cfg) (k j : nat) : bytes :=
  firstn j (x_wire (exchange b (firstn k (x_wire (exchange a (cv_in a b)))))).
Definition cp_in_b (a b : side_cfg) (k j : nat) : bytes := firstn k (x_wire (exchange a (cp_in_a a b k j))).
Definition cp_ok (a b : side_cfg) (k j : nat) : bool :=
  beq_bytes (firstn k (x_wire (exchange a (cv_in a b)))) (cp_in_b a b k j).
Lemma cp_session a b k j : cp_ok a b k j = true -> cut_session a b (cp_in_a a b k j) (cp_in_b a b k j).
Proof.
  unfold cp_ok. intros H. apply beq_bytes_true in H. split.
  - rewrite <- H. unfold cp_in_a. apply firstn_prefix.
  - unfold cp_in_b. apply firstn_prefix.
Qed.

(* the slave with A1, A2 against the master with an empty outbox (ConvergeP.cv_a2, cv_b0 []).
   Session 1: the link fails in the middle of the transfer of A2 (180 of 213 bytes): A1 stored, nothing
   reported.  Session 2 (b rejects A1, accepts A2): the link fails in the middle of the transfer of A2
   again (100 of 147 bytes): A1 reported (rejected), nothing stored.  Session 3, complete: A2 delivered and
   reported.  Over the three sessions each message is stored exactly once and reported exactly once. *)
Definition cv3_a1 := next_cfg cv_a2 (exchange cv_a2 (cp_in_a cv_a2 (cv_b0 []) 180 1000)).
Definition cv3_b1 := next_cfg (cv_b0 []) (exchange (cv_b0 []) (cp_in_b cv_a2 (cv_b0 []) 180 1000)).
Definition cv3_a2 := next_cfg cv3_a1 (exchange cv3_a1 (cp_in_a cv3_a1 cv3_b1 100 1000)).
Definition cv3_b2 := next_cfg cv3_b1 (exchange cv3_b1 (cp_in_b cv3_a1 cv3_b1 100 1000)).
Definition cv3_ia := cv_in cv3_a2 cv3_b2.
Definition cv3_ib := x_wire (exchange cv3_a2 cv3_ia).
Definition cv3_l : list (outcome * outcome) :=
  [(exchange cv_a2 (cp_in_a cv_a2 (cv_b0 []) 180 1000), exchange (cv_b0 []) (cp_in_b cv_a2 (cv_b0 []) 180 1000));
   (exchange cv3_a1 (cp_in_a cv3_a1 cv3_b1 100 1000), exchange cv3_b1 (cp_in_b cv3_a1 cv3_b1 100 1000))].

Example many_three_sessions_logs :
  (map strip (logs_x cv3_l ++ x_events (exchange cv3_a2 cv3_ia)),
   map strip (logs_y cv3_l ++ x_events (exchange cv3_b2 cv3_ib))) =
  ([EvPrepare; EvGetOutbound; EvBlockEnd;
    EvPrepare; EvGetOutbound; EvSetSent [65;49] true; EvBlockEnd;
    EvPrepare; EvGetOutbound; EvSetSent [65;50] false; EvBlockEnd; EvGetOutbound],
   [EvPrepare; EvAnswer [65;49] AAccept; EvAnswer [65;50] AAccept; EvProcess [65;49] [] true;
    EvPrepare; EvAnswer [65;49] AReject; EvAnswer [65;50] AAccept;
    EvPrepare; EvAnswer [65;50] AAccept; EvProcess [65;50] [] true; EvGetOutbound]).
Proof. vm_compute. reflexivity. Qed.

(* the hypotheses of convergence_many hold for it *)
Example many_three_sessions_history :
  history cv_a2 (cv_b0 []) cv3_l cv3_a2 cv3_b2 /\ cv3_l <> [] /\ closed cv3_a2 cv3_b2 cv3_ia cv3_ib.
Proof.
  split; [|split; [discriminate|split; vm_compute; reflexivity]].
  unfold cv3_l. apply h_cut; [apply cp_session; vm_compute; reflexivity|].
  apply (h_cut cv3_a1 cv3_b1); [apply cp_session; vm_compute; reflexivity|]. apply h_nil.
Qed.

(* so its conclusion does: by the theorem, not by computation *)
Example many_three_sessions_delivered :
  forall p, In p (h_outbox (c_handler cv_a2)) ->
    filter (stored_ev (o_mid p)) (logs_y cv3_l ++ x_events (exchange cv3_b2 cv3_ib)) = [EvProcess (o_mid p) (pm_data p) true] /\
    length (filter (sent_ev (o_mid p)) (logs_x cv3_l ++ x_events (exchange cv3_a2 cv3_ia))) = 1%nat.
Proof.
  intros p Hp. destruct (cv2_hypotheses []) as (H1&H2&H3&H4).
  destruct many_three_sessions_history as (Hh&Hne&Hc).
  assert (Hhs : hs_compat (if c_master cv_a2 then cv_a2 else cv_b0 []) (if c_master cv_a2 then cv_b0 [] else cv_a2))
    by (apply hs_check_sound; exact H2).
  apply (proj1 (convergence_many cv_a2 (cv_b0 []) cv3_l cv3_a2 cv3_b2 cv3_ia cv3_ib H1 Hhs
                  (sound_check_sound _ H3) (sound_check_sound _ H4) Hh Hne Hc) p Hp).
  reflexivity.
Qed.

(* the theorem for that pair with any storage fault of b, every history, every complete last session *)
Example convergence_many_cv2 fail l an bn (ia ib : bytes) :
  history cv_a2 (cv_b0 fail) l an bn -> l <> [] -> closed an bn ia ib ->
  forall p, In p (h_outbox (c_handler cv_a2)) ->
    filter (stored_ev (o_mid p)) (logs_y l ++ x_events (exchange bn ib)) = [EvProcess (o_mid p) (pm_data p) true] /\
    length (filter (sent_ev (o_mid p)) (logs_x l ++ x_events (exchange an ia))) = 1%nat.
Proof.
  intros Hh Hne Hc p Hp. destruct (cv2_hypotheses fail) as (H1&H2&H3&H4).
  assert (Hhs : hs_compat (if c_master cv_a2 then cv_a2 else cv_b0 fail) (if c_master cv_a2 then cv_b0 fail else cv_a2))
    by (apply hs_check_sound; exact H2).
  apply (proj1 (convergence_many cv_a2 (cv_b0 fail) l an bn ia ib H1 Hhs
                  (sound_check_sound _ H3) (sound_check_sound _ H4) Hh Hne Hc) p Hp).
  reflexivity.
Qed.

Print Assumptions stored_only_accepted.
Print Assumptions not_stored_unless_accepted.
Print Assumptions stored_from_outbox.
Print Assumptions sent_only_outbox.
Print Assumptions many_gen.
Print Assumptions convergence_many_spec.
Print Assumptions convergence_many.
Print Assumptions many_three_sessions_logs.
Print Assumptions many_three_sessions_history.
Print Assumptions many_three_sessions_delivered.
Print Assumptions convergence_many_cv2.

(* SUMMARY
   (S3) stored_only_accepted: in a cut_session of two sound library sides, EvProcess mid d ok in the log
        of a side (successful or not) implies that side's own policy accepts mid; not_stored_unless_accepted:
        for a MID its policy rejects or defers -- in particular a MID it stored in an earlier session
        (ConvergeP.policy_of_next) -- filter (proc mid) of its log is [].  stored_from_outbox: the MID is
        that of an entry of the peer's outbox.  Method: recv_block_pol2 (an answer is "defer" or the
        policy's), joint_turn3 = ConvergeOnceP.joint_turn2 with "the accepted MIDs of the block are
        accepted by the receiver's policy", joint_acc, the handshake as before.
   sent_only_outbox (one-sided, any input): EvSetSent m r in the log of x implies that m is the MID of an
        entry of x's outbox.
   (N)  history x y l xn yn: l is a sequence of cut sessions (ConvergeP.cut_session: cut anywhere in either
        direction, or stopped by a storage error), each on the mailboxes (next_cfg) the previous one left.
        convergence_many_spec / convergence_many: for opposite roles, compatible handshakes, two sound
        sides, a non-empty history and ANY complete session (closed) of the last mailboxes, over the
        concatenation of ALL logs: for an entry p whose MID the peer's ORIGINAL policy accepts, the
        successful stores of its MID are exactly [EvProcess mid (pm_data p) true] and there is exactly one
        EvSetSent for it; if the original policy rejects: never stored, exactly one EvSetSent; for a MID
        that is not in the outbox: no EvSetSent, no successful store.  Both directions.  (l = []: this is
        DeliverP.complete_exchange_delivers and needs side_ready of the original pair: many_gen.)
        Proof: induction on the history with rest_spec as the statement about the remaining sessions; an
        entry is pending (in the outbox, policy accept), stored-not-told (in the outbox, policy reject
        through next_cfg) or done (not in the outbox); the step uses (S1) sent_at_most_once, (S2)
        processed_at_most_once, (S3), sent_only_outbox, stored_from_outbox, (G1) stored_is_own, (G2)
        rejected_by_policy and PairP's safety (sent_only_if_received).
   NOT DONE: entries the ORIGINAL policy defers (they stay in the outbox: ConvergeP.conv_deferred for one
   step); failed stores (EvProcess _ _ false) are not counted -- a storage fault may recur in every faulty
   session (h_fail is reset by next_cfg, so only the first session of a history can have one in this
   model). *)
