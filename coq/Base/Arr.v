(* Base/Arr.v — functional arrays indexed by N, backed by PositiveMap (O(log n) in the
   extracted code).  Unset cells read as the default 0 (Go arrays are zero initialised). *)
From Coq Require Import NArith FMapPositive List.
Import ListNotations.
Open Scope N_scope.

Definition arr := PositiveMap.t N.
Definition aempty : arr := PositiveMap.empty N.

Definition aget (a : arr) (i : N) : N :=
  match PositiveMap.find (N.succ_pos i) a with Some v => v | None => 0 end.

Definition aset (a : arr) (i : N) (v : N) : arr := PositiveMap.add (N.succ_pos i) v a.

(* fill a[from .. from+len) with v *)
Fixpoint afill (a : arr) (from : N) (len : nat) (v : N) : arr :=
  match len with
  | O => a
  | S k => afill (aset a from v) (N.succ from) k v
  end.

(* a[from .. from+len) as a list *)
Fixpoint aslice (a : arr) (from : N) (len : nat) : list N :=
  match len with
  | O => []
  | S k => aget a from :: aslice a (N.succ from) k
  end.

Lemma succ_pos_inj i j : N.succ_pos i = N.succ_pos j -> i = j.
Proof.
  intros H. apply (f_equal Npos) in H. rewrite !N.succ_pos_spec in H. apply N.succ_inj. exact H.
Qed.

Lemma aget_aset_same a i v : aget (aset a i v) i = v.
Proof. unfold aget, aset. rewrite PositiveMap.gss. reflexivity. Qed.

Lemma aget_aset_other a i j v : i <> j -> aget (aset a i v) j = aget a j.
Proof.
  intros H. unfold aget, aset. rewrite PositiveMap.gso; [reflexivity|].
  intros E. apply H. symmetry. apply succ_pos_inj. exact E.
Qed.

Lemma aget_empty i : aget aempty i = 0.
Proof. unfold aget, aempty. rewrite PositiveMap.gempty. reflexivity. Qed.
