(* Base/Bytes.v — bytes, byte strings, decimal and hexadecimal printing/parsing.
   Definitions only (model side).  Proofs are in BytesP.v. *)
From Coq Require Export List NArith ZArith Bool.
Export ListNotations.
Open Scope N_scope.

Definition byte := N.
Definition bytes := list N.

Definition is_byte (b : N) : bool := b <? 256.
Definition wf_bytes (l : bytes) : bool := forallb is_byte l.

Fixpoint beq_bytes (a b : bytes) : bool :=
  match a, b with
  | [], [] => true
  | x :: a', y :: b' => (x =? y) && beq_bytes a' b'
  | _, _ => false
  end.

Fixpoint prefixb (p s : bytes) : bool :=
  match p, s with
  | [], _ => true
  | x :: p', y :: s' => (x =? y) && prefixb p' s'
  | _ :: _, [] => false
  end.

Definition suffixb (p s : bytes) : bool := prefixb (rev p) (rev s).

(* contains sub s : sub occurs in s as a contiguous substring *)
Fixpoint containsb (sub s : bytes) : bool :=
  prefixb sub s ||
  match s with
  | [] => false
  | _ :: s' => containsb sub s'
  end.

Fixpoint repeatN {A} (x : A) (n : nat) : list A :=
  match n with O => [] | S n' => x :: repeatN x n' end.

(* ---- decimal ---- *)
Definition digit_char (d : N) : N := 48 + d.

(* number of decimal digits (at least 1); fuel 40 covers every N below 10^40 *)
Fixpoint ndigits_aux (fuel : nat) (n : N) : nat :=
  match fuel with
  | O => 1
  | S f => if n <? 10 then 1%nat else S (ndigits_aux f (n / 10))
  end.
Definition ndigits (n : N) : nat := ndigits_aux 40 n.

(* the k low decimal digits of n, most significant first *)
Definition digitsk (k : nat) (n : N) : bytes :=
  map (fun i => digit_char ((n / 10 ^ N.of_nat i) mod 10)) (rev (seq 0 k)).

Definition dec_of_N (n : N) : bytes := digitsk (ndigits n) n.

Definition dec_of_Z (z : Z) : bytes :=
  match z with
  | Z0 => [48]
  | Zpos p => dec_of_N (Npos p)
  | Zneg p => 45 :: dec_of_N (Npos p)
  end.

(* fmt "%0<w>d", Go semantics: zero padding after the sign up to total width w *)
Definition fmt_0wd (w : nat) (z : Z) : bytes :=
  match z with
  | Zneg p => 45 :: digitsk (Nat.max (w - 1) (ndigits (Npos p))) (Npos p)
  | _ => digitsk (Nat.max w (ndigits (Z.to_N z))) (Z.to_N z)
  end.

(* fmt "%<w>d" : pads with spaces on the left *)
Definition fmt_wd (w : nat) (z : Z) : bytes :=
  let d := dec_of_Z z in repeatN 32 (w - length d) ++ d.

Definition lastn {A} (n : nat) (l : list A) : list A := skipn (length l - n) l.

(* ---- hex ---- *)
Definition hex_char_upper (d : N) : N := if d <? 10 then 48 + d else 55 + d.
Definition fmt_02X (n : N) : bytes :=
  if n <? 16 then [48; hex_char_upper n]
  else if n <? 256 then [hex_char_upper (n / 16); hex_char_upper (n mod 16)]
  else (* wider values do not occur: callers mask with 0xff *) [63; 63].

(* ---- ASCII helpers ---- *)
Definition is_digit (b : N) : bool := (48 <=? b) && (b <=? 57).
Definition is_upper (b : N) : bool := (65 <=? b) && (b <=? 90).
Definition is_lower (b : N) : bool := (97 <=? b) && (b <=? 122).
Definition to_upper (b : N) : N := if is_lower b then b - 32 else b.
Definition to_lower (b : N) : N := if is_upper b then b + 32 else b.
Definition upper (s : bytes) : bytes := map to_upper s.

(* little endian *)
Definition le16 (n : N) : bytes := [n mod 256; (n / 256) mod 256].
Definition le32 (n : N) : bytes :=
  [n mod 256; (n / 256) mod 256; (n / 65536) mod 256; (n / 16777216) mod 256].
Definition be16 (n : N) : bytes := [(n / 256) mod 256; n mod 256].

Fixpoint le_to_N (l : bytes) : N :=
  match l with [] => 0 | b :: r => b + 256 * le_to_N r end.
Fixpoint be_to_N_acc (acc : N) (l : bytes) : N :=
  match l with [] => acc | b :: r => be_to_N_acc (acc * 256 + b) r end.
Definition be_to_N := be_to_N_acc 0.

Fixpoint sumN (l : list N) : N :=
  match l with [] => 0 | x :: r => x + sumN r end.

(* split at first occurrence of byte c : (before, Some after) or (all, None) *)
Fixpoint split_at (c : N) (s : bytes) : bytes * option bytes :=
  match s with
  | [] => ([], None)
  | x :: r => if x =? c then ([], Some r)
              else let '(a, b) := split_at c r in (x :: a, b)
  end.

(* strings.Split(s, sep) for a single-byte separator *)
Fixpoint split_on (c : N) (s : bytes) : list bytes :=
  match s with
  | [] => [[]]
  | x :: r =>
      match split_on c r with
      | [] => if x =? c then [[]; []] else [[x]] (* unreachable: split_on never returns [] *)
      | h :: t => if x =? c then [] :: h :: t else (x :: h) :: t
      end
  end.

Fixpoint join_with (c : N) (l : list bytes) : bytes :=
  match l with
  | [] => []
  | [x] => x
  | x :: r => x ++ c :: join_with c r
  end.
