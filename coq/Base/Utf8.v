(* Base/Utf8.v — Go's UTF-8 decoding of byte strings (unicode/utf8.DecodeRune,
   DecodeLastRune), the rune iteration of "for _, c := range s", and strings.TrimSpace with
   unicode.IsSpace.  Definitions only. *)
From Verif Require Import Base.Bytes.
Open Scope N_scope.

Definition RuneError : N := 65533.
Definition is_cont (b : N) : bool := (128 <=? b) && (b <=? 191).

(* DecodeRune: (rune, size >= 1 for non-empty input) *)
Definition decode_rune (s : bytes) : N * nat :=
  match s with
  | [] => (RuneError, 0%nat)
  | b0 :: r =>
      if b0 <? 128 then (b0, 1%nat)
      else if (194 <=? b0) && (b0 <=? 223) then
        match r with
        | b1 :: _ => if is_cont b1 then ((b0 - 192) * 64 + (b1 - 128), 2%nat) else (RuneError, 1%nat)
        | _ => (RuneError, 1%nat)
        end
      else if (224 <=? b0) && (b0 <=? 239) then
        match r with
        | b1 :: b2 :: _ =>
            let lo := if b0 =? 224 then 160 else 128 in
            let hi := if b0 =? 237 then 159 else 191 in
            if (lo <=? b1) && (b1 <=? hi) && is_cont b2
            then ((b0 - 224) * 4096 + (b1 - 128) * 64 + (b2 - 128), 3%nat) else (RuneError, 1%nat)
        | _ => (RuneError, 1%nat)
        end
      else if (240 <=? b0) && (b0 <=? 244) then
        match r with
        | b1 :: b2 :: b3 :: _ =>
            let lo := if b0 =? 240 then 144 else 128 in
            let hi := if b0 =? 244 then 143 else 191 in
            if (lo <=? b1) && (b1 <=? hi) && is_cont b2 && is_cont b3
            then ((b0 - 240) * 262144 + (b1 - 128) * 4096 + (b2 - 128) * 64 + (b3 - 128), 4%nat)
            else (RuneError, 1%nat)
        | _ => (RuneError, 1%nat)
        end
      else (RuneError, 1%nat)
  end.

(* the runes of "for _, c := range s" *)
Fixpoint runes (fuel : nat) (s : bytes) : list N :=
  match fuel with
  | O => []
  | S f =>
      match s with
      | [] => []
      | _ => let '(r, n) := decode_rune s in r :: runes f (skipn n s)
      end
  end.
Definition rune_sum (s : bytes) : N := sumN (runes (length s) s).

(* unicode.IsSpace *)
Definition is_space_rune (r : N) : bool :=
  ((9 <=? r) && (r <=? 13)) || (r =? 32) || (r =? 133) || (r =? 160) || (r =? 5760)
  || ((8192 <=? r) && (r <=? 8202)) || (r =? 8232) || (r =? 8233) || (r =? 8239) || (r =? 8287)
  || (r =? 12288).

Fixpoint trim_left_space (fuel : nat) (s : bytes) : bytes :=
  match fuel with
  | O => s
  | S f =>
      match s with
      | [] => []
      | _ => let '(r, n) := decode_rune s in
             if is_space_rune r then trim_left_space f (skipn n s) else s
      end
  end.

(* DecodeLastRune on the reversed string: size of the last rune and the rune *)
Definition rune_start (b : N) : bool := negb (is_cont b).
Definition decode_last_rune (rs : bytes (* reversed *)) : N * nat :=
  match rs with
  | [] => (RuneError, 0%nat)
  | b :: _ =>
      if b <? 128 then (b, 1%nat)
      else
        (* look back at most 3 more bytes for a rune start *)
        let try (k : nat) : option (N * nat) :=
          let seg := rev' (firstn k rs) in
          match seg with
          | b0 :: _ =>
              if rune_start b0 then
                let '(r, n) := decode_rune seg in
                Some (if (n =? k)%nat then (r, k) else (RuneError, 1%nat))
              else None
          | [] => None
          end in
        match try 1%nat with
        | Some x => x
        | None =>
            if (length rs <? 2)%nat then (RuneError, 1%nat) else
            match try 2%nat with
            | Some x => x
            | None =>
                if (length rs <? 3)%nat then (RuneError, 1%nat) else
                match try 3%nat with
                | Some x => x
                | None =>
                    if (length rs <? 4)%nat then (RuneError, 1%nat) else
                    match try 4%nat with Some x => x | None => (RuneError, 1%nat) end
                end
            end
        end
  end.

Fixpoint trim_right_space_rev (fuel : nat) (rs : bytes) : bytes :=
  match fuel with
  | O => rs
  | S f =>
      match rs with
      | [] => []
      | _ => let '(r, n) := decode_last_rune rs in
             if is_space_rune r then trim_right_space_rev f (skipn n rs) else rs
      end
  end.

(* strings.TrimSpace *)
Definition trim_space_go (s : bytes) : bytes :=
  let l := trim_left_space (length s) s in
  rev' (trim_right_space_rev (length l) (rev' l)).
