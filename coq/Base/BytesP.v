(* Base/BytesP.v — basic facts about byte strings. *)
From Coq Require Import Lia.
From Verif Require Import Base.Bytes.
Open Scope N_scope.

Lemma beq_bytes_refl a : beq_bytes a a = true.
Proof. induction a as [|x a IH]; [reflexivity|]. cbn. rewrite N.eqb_refl, IH. reflexivity. Qed.

Lemma beq_bytes_true a b : beq_bytes a b = true -> a = b.
Proof.
  revert b. induction a as [|x a IH]; intros [|y b] H; try reflexivity; try discriminate.
  cbn in H. apply andb_true_iff in H. destruct H as [H1 H2].
  apply N.eqb_eq in H1. subst. f_equal. apply IH. exact H2.
Qed.

Lemma beq_bytes_false a b : beq_bytes a b = false -> a <> b.
Proof. intros H E. subst. rewrite beq_bytes_refl in H. discriminate. Qed.

Lemma beq_bytes_neq a b : a <> b -> beq_bytes a b = false.
Proof. intros H. destruct (beq_bytes a b) eqn:E; [apply beq_bytes_true in E; contradiction|reflexivity]. Qed.
